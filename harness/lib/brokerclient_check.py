"""Correspondence + monitor evaluation shared by props/c06.py and props/c10.py.

`check_batch(scenarios)` pipes, for every scenario, to ONE run of the compiled model:
  bc-new, then per event: the event and `bc-state`; `mon-model-c06`, `mon-model-c10` (the monitors on
  the model's own trace: they must accept - proved in AfkakProps, re-checked here on every scenario);
  then the IMPLEMENTATION's recorded trace (`t-new`, `t-ev`/`t-ob`…) and `mon-c06`, `mon-c10`.
It diffs observations event by event (strict order), diffs the internal state after every event
(white box; skipped if the implementation's attributes were renamed), and cross-checks that the broker end
received exactly the `write` observations.
"""
import random
import time

from harness import core
from harness.lib import brokerclient_gen as G
from harness.lib.brokerclient_drive import BCRun, check_server_side, instrumented


def impl_run(header, events, want_state=True):
    """Run the real object on a literal event list. -> (obs per event, state line per event | None, BCRun)"""
    r = BCRun(*header)
    obs, states = [], []
    ok_state = want_state
    for e in events:
        obs.append(r.ex(e))
        if ok_state:
            try:
                states.append(r.state_line())
            except (AttributeError, KeyError, TypeError, IndexError, ValueError):
                ok_state = False
    return obs, (states if ok_state else None), r


def scenario_lines(header, events, obs):
    """-> (lines, index map) for one scenario"""
    lines = [G.header_line(header)]
    ev_idx = []
    for e in events:
        ev_idx.append(len(lines))
        lines.append(e)
        lines.append("bc-state")
    mm = len(lines)
    lines += ["mon-model-c06", "mon-model-c10", "mon-model-c06r", "mon-model-r06", "mon-model-r10", "mon-model-bytes"]
    lines.append("t-new %d %d %s" % (header[0], header[1], ",".join(header[2]) if header[2] else "-"))
    for e, ol in zip(events, obs):
        lines.append("t-ev " + e)
        for o in ol:
            lines.append("t-ob " + o)
    mi = len(lines)
    # mon-bytes: framing x broker client on raw bytes, per connection, whole-stream parse (Afkak/BrokerClientBytes.lean);
    # conn-logs: the per-connection logs it cuts the trace into (compared with the driver's own record of what each
    # connection's transport was handed: BCRun.rx)
    lines += ["mon-c06", "mon-c10", "mon-c06r", "mon-r06", "mon-r10", "mon-bytes", "conn-logs"]
    return lines, ev_idx, mm, mi


def branch_label(e, ol):
    kinds = []
    for o in ol:
        w = o.split()
        k = w[0]
        if k == "fire":
            k = "fire_" + (w[3] if w[3] != "err" else w[4])
        elif k == "raise":
            k = "raise_" + w[1]
        elif k in ("made", "endhook", "closing"):
            continue
        if k not in kinds:
            kinds.append(k)
    return e.split()[0] + ":" + ("+".join(kinds) if kinds else "-")


def compare_one(header, events, obs, states, got, base, ev_idx, mm, mi):
    """-> dict(disagreement | None, c06 | None, c10 | None, model_mon | None)"""
    out = {"dis": None, "c06": None, "c10": None, "monmodel": None}
    for j, e in enumerate(events):
        g = got[base + ev_idx[j]]
        if g != obs[j]:
            out["dis"] = {"at": j, "event": e, "impl": obs[j], "model": g, "kind": "observations"}
            break
        if states is not None:
            gs = got[base + ev_idx[j] + 1]
            if gs != [states[j]]:
                out["dis"] = {"at": j, "event": e, "impl": [states[j]], "model": gs, "kind": "state"}
                break
    # `okp n`: the flat monitors judged only the flat prefix (n steps) of the trace: they do not apply beyond the
    # first callback / stubborn / synchronous-endpoint event (the stream monitors r06/r10 judge every trace)
    def good(x):
        return x == ["ok"] or (len(x) == 1 and x[0].startswith("okp "))

    class _OK(object):
        def __contains__(self, x):
            return good(x)

    OK = _OK()
    mods = got[base + mm: base + mm + 6]
    if out["dis"] is None and any(x not in OK for x in mods):
        out["monmodel"] = dict(zip(["c06", "c10", "c06-routing", "r06", "r10", "bytes"], mods))
    c6, c10, c6r, r6, r10, cb = got[base + mi: base + mi + 6]
    out["connlogs"] = got[base + mi + 6]
    # how much of the implementation's trace the flat monitors judged
    if c10 == ["ok"] or c6 == ["ok"]:
        out["flatcov"] = (len(events), len(events))
    elif len(c10) == 1 and c10[0].startswith("okp "):
        out["flatcov"] = (int(c10[0].split()[1]), len(events))
    else:
        out["flatcov"] = None
    if ["bad-op"] in (c6, c10, c6r, r6, r10, cb):
        # an observation of the implementation is outside the vocabulary of the model: not a verdict of the
        # monitor but a difference between model and implementation
        if out["dis"] is None:
            odd = [o for ol in obs for o in ol if "?" in o or o.startswith(("raise other", "down err"))]
            out["dis"] = {"at": len(events) - 1, "event": events[-1] if events else None, "impl": odd[:5], "model": None, "kind": "observation outside the model's vocabulary"}
        odd_only = True
    else:
        odd_only = False
    # the re-entrant monitors judge every trace (an unparsable observation does not stop them: they are also
    # evaluated by `rmon_py` below when the driver could not parse the trace)
    if not odd_only:
        if c6 not in OK:
            out["c06"] = c6
        elif c6r not in OK:
            out["c06"] = ["routing " + c6r[0]]
        elif r6 not in OK:
            out["c06"] = ["reentrant " + r6[0]]
        elif cb not in OK:
            out["c06"] = ["bytes " + cb[0]]
        if c10 not in OK:
            out["c10"] = c10
        elif r10 not in OK:
            out["c10"] = ["reentrant " + r10[0]]
    return out


def rx_problems(run, r):
    """The per-connection logs the Lean fold (`conn-logs`, Afkak/BrokerClientBytes.lean) cuts the recorded trace into
    against the driver's own record of which connection's transport was handed which bytes (BCRun.rx): same
    connections, same byte strings; and every log in order (`logOk`).  Only when the flat monitors judged the whole
    trace (the logs are those of the flat prefix)."""
    cov = r.get("flatcov")
    logs = r.get("connlogs")
    if cov is None or cov[0] != cov[1] or logs is None or logs == ["bad-op"]:
        return []
    want = {}
    for cid, data in run.rx:
        want[cid] = want.get(cid, b"") + data
    got, probs = {}, []
    for ln in logs:
        w = ln.split()
        if len(w) != 6 or w[0] != "log":
            return ["conn-logs: unparsable answer %r" % ln]
        got[int(w[1])] = b"" if w[2] == "-" else bytes.fromhex(w[2])
        if w[5] != "1" and r.get("c06") is None:
            probs.append("conn-logs: log of connection %s is not in order (logOk) although mon-bytes accepted" % w[1])
    for cid, data in want.items():
        if got.get(cid) != data:
            probs.append("connection %d: transport was handed %s, the Lean per-connection log has %s" % (cid, data.hex(), got.get(cid, b"<no log>").hex() if isinstance(got.get(cid), bytes) else "<no log>"))
    for cid, data in got.items():
        if data and cid not in want:
            probs.append("connection %d: the Lean per-connection log has bytes %s the transport never was handed" % (cid, data.hex()))
    return probs


def check_batch(scenarios):
    """scenarios: [(header, events, obs, states|None)] -> list of compare_one results"""
    lines, meta = [], []
    for header, events, obs, states in scenarios:
        ls, ev_idx, mm, mi = scenario_lines(header, events, obs)
        meta.append((len(lines), ev_idx, mm, mi))
        lines += ls
    got = core.run_model("brokerclient", lines)
    return [compare_one(h, ev, ob, st, got, base, ev_idx, mm, mi) for (h, ev, ob, st), (base, ev_idx, mm, mi) in zip(scenarios, meta)]


def check_literal(header, events):
    """Re-run a literal scenario on both sides. -> (result dict, obs, server-side problems)"""
    with instrumented():
        obs, states, run = impl_run(header, events)
    res = check_batch([(header, events, obs, states)])[0]
    probs = check_server_side(run, obs) + run.harness_errors + rx_problems(run, res)
    return res, obs, probs


def ddmin(items, failing):
    """Classic ddmin: smallest sublist (1-minimal) on which `failing(sublist)` still holds."""
    n = 2
    items = list(items)
    while len(items) >= 2:
        chunk = max(1, len(items) // n)
        subsets = [items[i:i + chunk] for i in range(0, len(items), chunk)]
        reduced = False
        for i in range(len(subsets)):
            comp = [x for j, s in enumerate(subsets) if j != i for x in s]
            if comp and failing(comp):
                items, n, reduced = comp, max(n - 1, 2), True
                break
        if not reduced:
            if n >= len(items):
                break
            n = min(len(items), n * 2)
    return items


def shrink(header, events, key):
    """Shrink `events` while `key(result)` stays truthy (key: result dict -> bool)."""

    def failing(evs):
        try:
            r, _, probs = check_literal(header, evs)
        except Exception:
            return False
        return bool(key(r))

    # cut the tail after the failing step first (cheap), then ddmin
    r, _, _ = check_literal(header, events)
    if r["dis"] is not None:
        events = events[: r["dis"]["at"] + 1]
    if not failing(events):
        return events
    return ddmin(events, failing)


# ----------------------------------------------------------------------------------------- a shard


def features(events, obs):
    """What a scenario exercises (for `nontrivial` and the histograms)."""
    f = set()
    lost_seen = False
    ckind = "cancelled"
    for e, ol in zip(events, obs):
        op = e.split()[0]
        kinds = [o.split()[0] for o in ol]
        if op == "ckind":
            ckind = e.split()[1]
        if "cancelConnect" in kinds:
            f.add("attempt_cancelled_endpoint_reports_" + ckind)
        for o in ol:
            w = o.split()
            if w[0] == "fire":
                f.add("fire_" + (w[3] if w[3] != "err" else w[4]))
                if w[3] == "ok" and len(w) > 4 and len(w[4]) == 8:
                    f.add("fire_ok_header_only_response")
                elif w[3] == "ok" and len(w) > 4 and len(w[4]) < 24:
                    f.add("fire_ok_response_shorter_than_echo")
            elif w[0] == "hook":
                f.add("hook_in_" + op)
            elif w[0] in ("unexpected", "raise", "lose", "down", "setTimer", "cancelTimer", "cancelConnect", "writeLost"):
                f.add(w[0] if w[0] != "raise" else "raise_" + w[1])
        if op == "bytes" and "badOp" not in kinds and not any(k == "fire" for k in kinds):
            f.add("bytes_no_fire")
        if op == "bytes" and sum(1 for k in kinds if k == "fire") >= 2:
            f.add("bytes_multi_fire")
        if op in ("lost",) and "badOp" not in kinds:
            lost_seen = True
            f.add("lost_reconnect" if "connect" in kinds else ("lost_down" if "down" in kinds else "lost_idle"))
        if op == "bytes" and "raise" in kinds:
            lost_seen = True
        if op == "connOk" and "badOp" not in kinds:
            nw = sum(1 for k in kinds if k == "write")
            if lost_seen and nw:
                f.add("resend")
                if nw >= 2:
                    f.add("resend_multi")
        if op == "advance" and "connect" in kinds:
            f.add("backoff_fired")
        if op == "close" and "raise" not in kinds:
            f.add("close")
            if any(k == "fire" for k in kinds):
                f.add("close_with_pending")
        if op == "make" and " ; " in e:
            f.add("hook_multi_action")
        # the endpoint answered connect() synchronously: the outcome is part of the step that dialled
        if op not in ("connOk", "connFail") and "connect" in kinds:
            if "write" in kinds or "writeLost" in kinds:
                f.add("sync_connect_ok_writes")
            if "setTimer" in kinds:
                f.add("sync_connect_fail")
        # the pathological endpoint connected from inside connector.cancel()
        if "cancelConnect" in kinds and "lose" in kinds:
            f.add("stubborn_connect_in_cancel")
        depth = 0
        for k in kinds:
            if k == "hook":
                depth += 1
                if depth >= 2:
                    f.add("hook_nested")
            elif k == "endhook":
                depth -= 1
    return f


def run_shard(seed, n, profiles, maxlen=None, prefix=None, mons=("c06", "c10"), budget_s=None):
    """Generate and check `n` scenarios from `seed`. Returns a picklable summary."""
    rng = random.Random(seed)
    t0 = time.time()
    scs = []
    with instrumented():
        for i in range(n):
            if budget_s is not None and time.time() - t0 > budget_s:
                break
            profile = rng.choice(profiles)
            header = G.gen_header(rng) if prefix is None else prefix[0]
            nids = rng.choice([1, 2, 2, 3, 4, 6])
            ml = maxlen or rng.choice([6, 12, 20, 30, 45])
            on = G.Online(rng, header, profile, nids, ml)
            try:
                if prefix is not None:
                    keep = rng.randrange(0, len(prefix[1]) + 1) if rng.random() < 0.5 else len(prefix[1])
                    for e in prefix[1][:keep]:
                        if rng.random() < 0.08:
                            continue
                        on.emit(e)
                        if rng.random() < 0.1:
                            on.step()
                    on.maxlen = len(on.events) + rng.choice([0, 1, 2, 4, 8, 16])
                header, events, obs, run = on.generate()
            except Exception as ex:  # the real object raised something the driver does not know
                scs.append((on.header, list(on.events), list(on.obs), None, None, ["harness/implementation exception: %r" % (ex,)]))
                continue
            # white-box states need a second, literal run (the online run has no per-event snapshots)
            scs.append((header, events, obs, None, run, check_server_side(run, obs) + run.harness_errors))
        # literal re-run with state snapshots; also proves that the event list alone replays the scenario
        full = []
        for header, events, obs, _, run, probs in scs:
            obs2, states, run2 = impl_run(header, events)
            if obs2 != obs:
                probs = probs + ["literal replay differs from the online run"]
            full.append((header, events, obs, states, probs, run2))
    results = check_batch([(h, ev, ob, st) for h, ev, ob, st, _, _ in full])
    summ = {"n": len(full), "events": 0, "hist": {}, "dis": [], "mon": [], "monmodel": [], "distinct": [], "samples": [], "whitebox": 0}
    hist = summ["hist"]
    for (header, events, obs, states, probs, run2), r in zip(full, results):
        summ["events"] += len(events)
        rxp = rx_problems(run2, r)
        probs = probs + rxp
        nlog = len(r.get("connlogs") or [])
        if nlog and r.get("flatcov") and r["flatcov"][0] == r["flatcov"][1]:
            hist["bytes per-connection logs compared with the transport record"] = hist.get("bytes per-connection logs compared with the transport record", 0) + nlog
            if nlog >= 2 and len(set(c for c, _ in run2.rx)) >= 2:
                hist["sc bytes_on_two_or_more_connections"] = hist.get("sc bytes_on_two_or_more_connections", 0) + 1
        if states is not None:
            summ["whitebox"] += 1
        for e, ol in zip(events, obs):
            k = "br " + branch_label(e, ol)
            hist[k] = hist.get(k, 0) + 1
            k = "op " + e.split()[0]
            hist[k] = hist.get(k, 0) + 1
            if e.startswith("lost") and "badOp" not in ol:
                k = "sc connection lost with reason " + (e.split()[1] if " " in e else "done")
                hist[k] = hist.get(k, 0) + 1
        fs = features(events, obs)
        for x in fs:
            hist["sc " + x] = hist.get("sc " + x, 0) + 1
        hist["len %02d-%02d" % (len(events) // 10 * 10, len(events) // 10 * 10 + 9)] = hist.get("len %02d-%02d" % (len(events) // 10 * 10, len(events) // 10 * 10 + 9), 0) + 1
        summ["distinct"].append((sorted(fs), header, events))
        if len(summ["samples"]) < 2 and len(events) >= 8:
            summ["samples"].append({"header": header, "events": events[:14], "impl_observations": obs[:14]})
        if probs:
            summ["dis"].append({"header": header, "events": events, "result": {"kind": "harness", "problems": probs}})
        if r["dis"] is not None:
            summ["dis"].append({"header": header, "events": events, "result": r["dis"]})
        if r["monmodel"] is not None:
            summ["monmodel"].append({"header": header, "events": events, "result": r["monmodel"]})
        for m in mons:
            if r[m] is not None:
                summ["mon"].append({"mon": m, "header": header, "events": events, "obs": obs, "verdict": r[m]})
        # accounting: what the FLAT monitors judged of this implementation trace (the stream monitors r06/r10
        # judge all of it)
        cov = r.get("flatcov")
        if cov is not None:
            hist["cov traces"] = hist.get("cov traces", 0) + 1
            hist["cov flat-monitor judged whole trace" if cov[0] == cov[1] else "cov flat-monitor judged prefix only"] = \
                hist.get("cov flat-monitor judged whole trace" if cov[0] == cov[1] else "cov flat-monitor judged prefix only", 0) + 1
            hist["cov steps judged by flat monitors"] = hist.get("cov steps judged by flat monitors", 0) + cov[0]
            hist["cov steps total"] = hist.get("cov steps total", 0) + cov[1]
            if cov[0] == 0 and cov[1] > 0:
                hist["cov flat-monitor judged nothing"] = hist.get("cov flat-monitor judged nothing", 0) + 1
    return summ


def _shard_star(a):
    return run_shard(*a)


def run_shards(ctx, shards, workers):
    """shards: list of run_shard arg tuples."""
    if workers <= 1 or len(shards) <= 1:
        return [run_shard(*a) for a in shards]
    import multiprocessing as mp

    with mp.get_context("fork").Pool(min(workers, len(shards))) as pool:
        return pool.map(_shard_star, shards, chunksize=1)


# ------------------------------------------------------------------------------ bounded exhaustive

F1 = "0000000c" + "00000001" + "ee" * 8
F2 = "0000000c" + "00000002" + "ee" * 8
H1 = "00000004" + "00000001"  # a header-only response: the correlation id and nothing else
ALPHABET = [
    "make 1 1", "make 2 1", "make 2 0", "make 2 0 hook close", "make 1 1 hook cancel 2", "make 2 0 hook cancel 1",
    "make 1 1 hook make 2 1", "make 2 0 hook disconnect", "make 2 0 hook cancel 1 ; close", "stubborn 1", "cancel 1", "cancel 2", "connOk", "connFail", "advance 1", "advance 1/2",
    "bytes " + F1, "bytes " + F2, "bytes " + F1[:12], "bytes " + F1[12:], "bytes " + F2 + F1, "bytes 80000000", "bytes " + H1,
    "lost", "close", "disconnect", "meta 2 9093", "sync ok", "sync fail",
]
SMALL_ALPHABET = ["make 1 1", "make 2 1", "cancel 1", "connOk", "connFail", "advance 1", "bytes " + F1, "bytes " + F2, "lost lost", "close", "disconnect",
                  "sync ok", "sync fail", "ckind connecting"]
EX_HEADER = (1, 9092, ["1"])


def _fp(run):
    return (run.fingerprint(), tuple(sorted((i, d.called) for i, d in run.defs.items())))


def expand(paths, alphabet):
    """Run every path+symbol on the implementation; -> [(path+sym, obs, states, fingerprint, probs)]"""
    out = []
    with instrumented():
        for p in paths:
            for s in alphabet:
                evs = list(p) + [s]
                obs, states, run = impl_run(EX_HEADER, evs)
                out.append((evs, obs, states, _fp(run), check_server_side(run, obs) + run.harness_errors))
    return out


def _expand_star(a):
    res = expand(*a)
    checked = check_batch([(EX_HEADER, evs, obs, st) for evs, obs, st, _, _ in res])
    return [(evs, obs, fp, probs, r) for (evs, obs, st, fp, probs), r in zip(res, checked)]


def exhaustive(depth, alphabet, workers, budget_s):
    """Breadth-first over the reachable states (deduplicated by the implementation-side fingerprint):
    every transition `state --symbol-->` from every state reachable within `depth` events is executed on
    both sides, compared, and fed to the monitors."""
    t0 = time.time()
    seen = set()
    frontier = [[]]
    summ = {"transitions": 0, "states": 1, "depth_done": 0, "dis": [], "mon": [], "monmodel": [], "hist": {}}
    import multiprocessing as mp

    pool = mp.get_context("fork").Pool(workers) if workers > 1 else None
    try:
        for d in range(1, depth + 1):
            if not frontier or (budget_s is not None and time.time() - t0 > budget_s):
                break
            if pool is not None:
                k = max(1, min(64, len(frontier) // (workers * 4) or 1))
                chunks = [(frontier[i:i + k], alphabet) for i in range(0, len(frontier), k)]
                parts = pool.map(_expand_star, chunks, chunksize=1)
            else:
                parts = [_expand_star((frontier, alphabet))]
            nxt = []
            for part in parts:
                for evs, obs, fp, probs, r in part:
                    summ["transitions"] += 1
                    k = "ex " + branch_label(evs[-1], obs[-1])
                    summ["hist"][k] = summ["hist"].get(k, 0) + 1
                    if probs:
                        summ["dis"].append({"header": EX_HEADER, "events": evs, "result": {"kind": "harness", "problems": probs}})
                    if r["dis"] is not None:
                        summ["dis"].append({"header": EX_HEADER, "events": evs, "result": r["dis"]})
                    if r["monmodel"] is not None:
                        summ["monmodel"].append({"header": EX_HEADER, "events": evs, "result": r["monmodel"]})
                    for m in ("c06", "c10"):
                        if r[m] is not None:
                            summ["mon"].append({"mon": m, "header": EX_HEADER, "events": evs, "obs": obs, "verdict": r[m]})
                    if fp not in seen:
                        seen.add(fp)
                        nxt.append(evs)
            summ["depth_done"] = d
            summ["states"] = len(seen) + 1
            frontier = nxt
    finally:
        if pool is not None:
            pool.close()
            pool.join()
    return summ
