"""Constants of the cache QUERY methods of afkak/client.py used by Afkak/ClientQuery.lean (session 5, C08):
the error code `metadata_error_for_topic` answers for a topic it has no error for, and the shapes of
`has_metadata_for_topic` / `metadata_error_for_topic` (which dictionary each one reads)."""
import ast

from harness.consts.client import _errno_table


def _single_return(fn, what):
    rets = [n for n in ast.walk(fn) if isinstance(n, ast.Return)]
    if len(rets) != 1 or rets[0].value is None:
        raise KeyError("%s: expected exactly one `return <expr>`" % what)
    return rets[0].value


def _self_attr(node):
    if isinstance(node, ast.Attribute) and isinstance(node.value, ast.Name) and node.value.id == "self":
        return node.attr
    return None


def extract(src):
    errnos = _errno_table(src)
    # has_metadata_for_topic: `return _coerce_topic(topic) in self.<dict>`
    has = _single_return(src.func("client.py", "KafkaClient.has_metadata_for_topic"), "has_metadata_for_topic")
    if not (isinstance(has, ast.Compare) and len(has.ops) == 1 and isinstance(has.ops[0], ast.In)
            and _self_attr(has.comparators[0]) == "topic_partitions"):
        raise KeyError("has_metadata_for_topic is no longer `<topic> in self.topic_partitions`")
    # metadata_error_for_topic: `return self.topic_errors.get(<topic>, <Class>.errno)`
    err = _single_return(src.func("client.py", "KafkaClient.metadata_error_for_topic"), "metadata_error_for_topic")
    if not (isinstance(err, ast.Call) and isinstance(err.func, ast.Attribute) and err.func.attr == "get"
            and _self_attr(err.func.value) == "topic_errors" and len(err.args) == 2):
        raise KeyError("metadata_error_for_topic is no longer `self.topic_errors.get(<topic>, <default>)`")
    dflt = err.args[1]
    if not (isinstance(dflt, ast.Attribute) and dflt.attr == "errno" and isinstance(dflt.value, ast.Name)):
        raise KeyError("metadata_error_for_topic: default is not `<ErrorClass>.errno`")
    return [
        ("clientMetadataErrorDefault", "Int", "(%d)" % errnos[dflt.value.id]),
    ]
