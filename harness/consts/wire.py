"""Source-derived constants of afkak/kafkacodec.py, afkak/_util.py, afkak/common.py and the
version-selection code of afkak/client.py / afkak/producer.py, used by Afkak/Wire/*.lean.

* `fmt_<function>_<k>`  : the struct format of the k-th (source order) `struct.pack` /
  `struct.unpack` / `relative_unpack` call directly inside <function> (nested functions are named
  `<outer>_<inner>`), as a `List Char`.  A `"...%d..." % n` template keeps its `%d`/`%s`.
* `argc_<function>_<k>_<j>` : a literal integer passed as j-th value to that `struct.pack` call
  (the `-1` replica id of fetch / list-offsets).
* API keys, codec numbers, masks, limits, the header version each encoder passes, the clamp of
  produce / fetch (`api_version >= 2`), the CRC range, the null markers.
A pattern that is no longer found raises KeyError (reported as "source changed shape").
"""
import ast

from harness.extract_consts import const_value

PACKERS = {"pack", "unpack", "iter_unpack", "unpack_from", "calcsize"}


def _own_nodes(fn):
    """Nodes of `fn`'s body that are not inside a nested function/class (source order)."""
    out = []

    def rec(n):
        for c in ast.iter_child_nodes(n):
            if isinstance(c, (ast.FunctionDef, ast.AsyncFunctionDef, ast.ClassDef, ast.Lambda)):
                continue
            out.append(c)
            rec(c)

    for stmt in fn.body:
        if isinstance(stmt, (ast.FunctionDef, ast.AsyncFunctionDef, ast.ClassDef)):
            continue
        out.append(stmt)
        rec(stmt)
    out.sort(key=lambda n: (getattr(n, "lineno", 0), getattr(n, "col_offset", 0)))
    return out


def _fmt_of(node):
    """Constant format string, or template of `"..." % x`; None if the first arg is not one."""
    if isinstance(node, ast.Constant) and isinstance(node.value, str):
        return node.value
    if isinstance(node, ast.BinOp) and isinstance(node.op, ast.Mod) and isinstance(node.left, ast.Constant) and isinstance(node.left.value, str):
        return node.left.value
    return None


def _is_fmt_call(call):
    f = call.func
    if isinstance(f, ast.Attribute) and isinstance(f.value, ast.Name) and f.value.id == "struct" and f.attr in PACKERS:
        return True
    if isinstance(f, ast.Name) and f.id == "relative_unpack":
        return True
    return False


def _functions(tree):
    """(qualified name without class names, FunctionDef) for every function, nested ones included."""
    out = []

    def rec(n, prefix):
        for c in ast.iter_child_nodes(n):
            if isinstance(c, ast.ClassDef):
                rec(c, prefix)
            elif isinstance(c, (ast.FunctionDef, ast.AsyncFunctionDef)):
                q = prefix + [c.name.lstrip("_")]
                out.append(("_".join(q), c))
                rec(c, q)
            else:
                rec(c, prefix)

    rec(tree, [])
    return out


def lean_chars(s):
    def ch(c):
        if c == "'":
            return "'\\''"
        if c == "\\":
            return "'\\\\'"
        return "'%s'" % c

    return "[" + ", ".join(ch(c) for c in s) + "]"


def formats(tree):
    """-> {function: [(fmt, [(j, int const arg)...])...]} in source order."""
    res = {}
    for q, fn in _functions(tree):
        calls = []
        for n in _own_nodes(fn):
            if isinstance(n, ast.Call) and _is_fmt_call(n) and n.args:
                fmt = _fmt_of(n.args[0])
                if fmt is None:
                    continue
                consts = []
                is_pack = isinstance(n.func, ast.Attribute) and n.func.attr == "pack"
                for j, a in enumerate(n.args[1:] if is_pack else []):
                    try:
                        v = const_value(a)
                    except ValueError:
                        continue
                    if isinstance(v, int) and not isinstance(v, bool):
                        consts.append((j, v))
                calls.append((fmt, consts))
        if calls:
            res[q] = calls
    return res


def _class_int_attrs(tree, cls):
    for n in ast.walk(tree):
        if isinstance(n, ast.ClassDef) and n.name == cls:
            out = {}
            for s in n.body:
                if isinstance(s, ast.Assign) and len(s.targets) == 1 and isinstance(s.targets[0], ast.Name):
                    try:
                        v = const_value(s.value)
                    except ValueError:
                        continue
                    if isinstance(v, int):
                        out[s.targets[0].id] = v
            return out
    raise KeyError("class %s not found" % cls)


def _module_int(tree, name):
    for s in tree.body:
        if isinstance(s, ast.Assign) and len(s.targets) == 1 and isinstance(s.targets[0], ast.Name) and s.targets[0].id == name:
            return const_value(s.value)
    raise KeyError("module constant %s not found" % name)


def _find_func(tree, qual):
    for q, fn in _functions(tree):
        if q == qual:
            return fn
    raise KeyError("function %s not found" % qual)


def _header_version(fn, default, keys):
    """The api_version an encoder hands to _encode_message_header and the request key it names:
    a constant, or the name of a local variable ('var:<name>')."""
    for n in _own_nodes(fn):
        if isinstance(n, ast.Call) and isinstance(n.func, ast.Attribute) and n.func.attr == "_encode_message_header":
            ver = default
            if len(n.args) >= 4:
                ver = n.args[3]
            for kw in n.keywords:
                if kw.arg == "api_version":
                    ver = kw.value
            key = n.args[2] if len(n.args) >= 3 else None
            if isinstance(key, ast.Attribute) and key.attr in keys:
                key = keys[key.attr]
            elif isinstance(key, ast.Attribute):
                key = "attr:" + key.attr
            else:
                raise KeyError("request key of %s" % fn.name)
            if isinstance(ver, int):
                return ver, key
            if isinstance(ver, ast.Constant):
                return ver.value, key
            if isinstance(ver, ast.Name):
                return "var:" + ver.id, key
            if isinstance(ver, ast.Attribute):
                return "attr:" + ver.attr, key
            raise KeyError("api_version of %s" % fn.name)
    raise KeyError("%s does not call _encode_message_header" % fn.name)


def _clamp(fn):
    """`if api_version >= K: req_api_version = V [; magic = M] else: req_api_version = api_version [; magic = M0]`"""
    for n in _own_nodes(fn):
        if isinstance(n, ast.If) and isinstance(n.test, ast.Compare) and isinstance(n.test.left, ast.Name) and n.test.left.id == "api_version":
            if len(n.test.ops) != 1 or not isinstance(n.test.ops[0], ast.GtE):
                raise KeyError("%s: clamp comparison is no longer `>=`" % fn.name)
            k = const_value(n.test.comparators[0])
            then = {s.targets[0].id: s.value for s in n.body if isinstance(s, ast.Assign)}
            els = {s.targets[0].id: s.value for s in n.orelse if isinstance(s, ast.Assign)}
            if not (isinstance(els.get("req_api_version"), ast.Name) and els["req_api_version"].id == "api_version"):
                raise KeyError("%s: else branch of the clamp no longer passes api_version through" % fn.name)
            out = {"threshold": k, "version": const_value(then["req_api_version"])}
            if "magic" in then:
                out["magic_hi"] = const_value(then["magic"])
                out["magic_lo"] = const_value(els["magic"])
            return out
    raise KeyError("%s: version clamp not found" % fn.name)


def _compare_const(fn, var_pred, what):
    for n in _own_nodes(fn):
        if isinstance(n, ast.Compare) and var_pred(n.left) and len(n.ops) == 1:
            return type(n.ops[0]).__name__, const_value(n.comparators[0])
    raise KeyError(what)


def extract(src):
    kc = src.tree("kafkacodec.py")
    ut = src.tree("_util.py")
    cm = src.tree("common.py")
    cl = src.tree("client.py")
    pr = src.tree("producer.py")
    out = []

    # ---- struct formats -------------------------------------------------------------------
    want = {
        "kafkacodec.py": (kc, [
            ("encode_message_header", 1), ("encode_message_set", 1), ("encode_message", 5),
            ("decode_message_set_iter", 1), ("decode_message", 1), ("decode_message_v1", 1),
            ("decode_api_versions_response", 2), ("get_response_correlation_id", 1),
            ("encode_produce_request", 3), ("decode_produce_response_v0", 3), ("decode_produce_response_v2", 4),
            ("encode_fetch_request", 3), ("decode_fetch_response", 4),
            ("encode_offset_request", 3), ("decode_offset_response", 4),
            ("encode_metadata_request", 1), ("decode_metadata_response", 10),
            ("decode_consumermetadata_response", 2),
            ("encode_offset_commit_request", 4), ("decode_offset_commit_response", 4),
            ("encode_offset_fetch_request", 3), ("decode_offset_fetch_response", 5),
            ("encode_join_group_request", 2), ("encode_join_group_protocol_metadata", 1),
            ("decode_join_group_protocol_metadata", 1), ("decode_join_group_response", 2),
            ("decode_leave_group_response", 1), ("encode_heartbeat_request", 1), ("decode_heartbeat_response", 1),
            ("encode_sync_group_request", 2), ("decode_sync_group_response", 1),
            ("encode_sync_group_member_assignment", 3), ("decode_sync_group_member_assignment", 3),
        ]),
        "_util.py": (ut, [("write_int_string", 2), ("write_short_bytes", 1), ("read_short_bytes", 1), ("read_int_string", 1)]),
    }
    for fname, (tree, fns) in want.items():
        fm = formats(tree)
        for q, count in fns:
            calls = fm.get(q)
            if calls is None:
                raise KeyError("%s: no struct calls found in %s" % (fname, q))
            if len(calls) != count:
                raise KeyError("%s: %s has %d struct calls, expected %d" % (fname, q, len(calls), count))
            for k, (fmt, consts) in enumerate(calls):
                out.append(("fmt_%s_%d" % (q, k), "List Char", lean_chars(fmt)))
                for j, v in consts:
                    out.append(("argc_%s_%d_%d" % (q, k, j), v))
    # _NULL_SHORT_STRING = struct.pack(">h", -1)
    for s in ut.body:
        if isinstance(s, ast.Assign) and isinstance(s.targets[0], ast.Name) and s.targets[0].id == "_NULL_SHORT_STRING":
            c = s.value
            if not (isinstance(c, ast.Call) and _is_fmt_call(c)):
                raise KeyError("_NULL_SHORT_STRING is no longer a struct.pack call")
            out.append(("fmt_null_short_string", "List Char", lean_chars(_fmt_of(c.args[0]))))
            out.append(("nullShortLen", const_value(c.args[1])))
            break
    else:
        raise KeyError("_NULL_SHORT_STRING not found")

    # ---- null markers and limits in _util ----------------------------------------------------
    for fn_name, nm, nm2 in (("read_short_bytes", "readShortNull", "readShortNegBelow"), ("read_int_string", "readIntNull", "readIntNegBelow")):
        cmps = [
            (type(n.ops[0]).__name__, const_value(n.comparators[0]))
            for n in _own_nodes(_find_func(ut, fn_name))
            if isinstance(n, ast.Compare) and isinstance(n.left, ast.Name) and n.left.id == "strlen" and len(n.ops) == 1
        ]
        if [o for o, _ in cmps] != ["Eq", "Lt"]:
            raise KeyError("%s: expected `strlen == NULL` then `strlen < BOUND`, found %s" % (fn_name, cmps))
        out.append((nm, cmps[0][1]))
        out.append((nm2, cmps[1][1]))
    op, v = _compare_const(
        _find_func(ut, "write_short_bytes"),
        lambda l: isinstance(l, ast.Call) and isinstance(l.func, ast.Name) and l.func.id == "len",
        "write_short_bytes: `len(b) > 32767` not found",
    )
    if op != "Gt":
        raise KeyError("write_short_bytes: length test is no longer `>`")
    out.append(("shortBytesMax", v))
    # write_int_string: the literal passed for None
    out.append(("writeIntNull", formats(ut)["write_int_string"][0][1][0][1]))

    # ---- kafkacodec module constants ------------------------------------------------------------
    out.append(("attributeCodecMask", _module_int(kc, "ATTRIBUTE_CODEC_MASK")))
    out.append(("maxBrokers", _module_int(kc, "MAX_BROKERS")))
    for nm, py in (("codecNone", "CODEC_NONE"), ("codecGzip", "CODEC_GZIP"), ("codecSnappy", "CODEC_SNAPPY")):
        out.append((nm, _module_int(cm, py)))
    keys = _class_int_attrs(kc, "KafkaCodec")
    for nm, py in (
        ("produceKey", "PRODUCE_KEY"), ("fetchKey", "FETCH_KEY"), ("offsetKey", "OFFSET_KEY"), ("metadataKey", "METADATA_KEY"),
        ("offsetCommitKey", "OFFSET_COMMIT_KEY"), ("offsetFetchKey", "OFFSET_FETCH_KEY"),
        ("consumerMetadataKey", "CONSUMER_METADATA_KEY"), ("joinGroupKey", "JOIN_GROUP_KEY"), ("heartbeatKey", "HEARTBEAT_KEY"),
        ("leaveGroupKey", "LEAVE_GROUP_KEY"), ("syncGroupKey", "SYNC_GROUP_KEY"), ("apiVersionsKey", "API_VERSIONS_KEY"),
    ):
        out.append((nm, keys[py]))

    # ---- header version and request key each encoder uses ------------------------------------------------
    hdr = _find_func(kc, "encode_message_header")
    default_ver = None
    a = hdr.args
    pos = a.posonlyargs + a.args
    for arg, d in zip(pos[len(pos) - len(a.defaults):], a.defaults):
        if arg.arg == "api_version":
            default_ver = const_value(d)
    if default_ver is None:
        raise KeyError("_encode_message_header: default api_version not found")
    out.append(("hdrDefaultVersion", default_ver))
    expected_key = {
        "encode_produce_request": "produceKey", "encode_fetch_request": "fetchKey", "encode_offset_request": "offsetKey",
        "encode_metadata_request": "metadataKey", "encode_consumermetadata_request": "consumerMetadataKey",
        "encode_offset_commit_request": "offsetCommitKey", "encode_offset_fetch_request": "offsetFetchKey",
        "encode_join_group_request": "joinGroupKey", "encode_leave_group_request": "leaveGroupKey",
        "encode_heartbeat_request": "heartbeatKey", "encode_sync_group_request": "syncGroupKey",
    }
    for enc in sorted(expected_key):
        ver, key = _header_version(_find_func(kc, enc), default_ver, keys)
        if not isinstance(key, int):
            raise KeyError("%s: request key is not a KafkaCodec constant" % enc)
        out.append(("hdrKey_%s" % enc, key))
        if isinstance(ver, int):
            out.append(("hdrVer_%s" % enc, ver))
        elif ver != "var:req_api_version":
            raise KeyError("%s: header version is %s" % (enc, ver))
    ver, key = _header_version(_find_func(kc, "encode_api_versions_request"), default_ver, keys)
    if ver != "attr:api_version" or key != "attr:api_key":
        raise KeyError("encode_api_versions_request: header no longer carries the request's api_key/api_version (%s, %s)" % (key, ver))

    # ---- every broker-aware encoder groups through _group_payloads, which refuses a lost payload ------------------
    gp = _find_func(kc, "group_payloads")
    ok = False
    for n in _own_nodes(gp):
        if (isinstance(n, ast.If) and isinstance(n.test, ast.Compare) and len(n.test.ops) == 1 and isinstance(n.test.ops[0], ast.NotEq)
                and isinstance(n.test.left, ast.Call) and isinstance(n.test.left.func, ast.Name) and n.test.left.func.id == "sum"
                and isinstance(n.test.comparators[0], ast.Call) and getattr(n.test.comparators[0].func, "id", None) == "len"
                and any(isinstance(b, ast.Raise) for b in n.body)):
            ok = True
    if not ok:
        raise KeyError("_group_payloads: `if sum(len(..)) != len(payloads): raise` not found")
    for enc in ("encode_produce_request", "encode_fetch_request", "encode_offset_request", "encode_offset_commit_request", "encode_offset_fetch_request"):
        fn = _find_func(kc, enc)
        if not any(isinstance(n, ast.Call) and isinstance(n.func, ast.Name) and n.func.id == "_group_payloads" for n in _own_nodes(fn)):
            raise KeyError("%s no longer groups its payloads through _group_payloads" % enc)

    # ---- produce / fetch clamp -----------------------------------------------------------------------
    c = _clamp(_find_func(kc, "encode_produce_request"))
    out += [("produceClampAt", c["threshold"]), ("produceClampTo", c["version"]), ("produceMagicHi", c["magic_hi"]), ("produceMagicLo", c["magic_lo"])]
    c = _clamp(_find_func(kc, "encode_fetch_request"))
    out += [("fetchClampAt", c["threshold"]), ("fetchClampTo", c["version"])]

    # ---- response decoder dispatch on api_version ----------------------------------------------------------
    def dispatch(fn_name):
        res = []
        fn = _find_func(kc, fn_name)
        for n in _own_nodes(fn):
            if isinstance(n, ast.Compare) and isinstance(n.left, ast.Name) and n.left.id == "api_version" and len(n.ops) == 1:
                res.append((type(n.ops[0]).__name__, const_value(n.comparators[0])))
        return res

    d = dispatch("decode_produce_response")
    if [o for o, _ in d] != ["Eq", "GtE"]:
        raise KeyError("decode_produce_response: version dispatch changed: %s" % d)
    out += [("produceRespV0Is", d[0][1]), ("produceRespV2From", d[1][1])]
    d = dispatch("decode_fetch_response")
    if [o for o, _ in d] != ["Eq", "GtE"]:
        raise KeyError("decode_fetch_response: version dispatch changed: %s" % d)
    out += [("fetchRespV0Is", d[0][1]), ("fetchRespV2From", d[1][1])]

    # ---- CRC range and mask ---------------------------------------------------------------------------
    dm = _find_func(kc, "decode_message")
    crc_from = None
    masks = []
    for n in _own_nodes(dm):
        if isinstance(n, ast.Call) and isinstance(n.func, ast.Attribute) and n.func.attr == "crc32":
            a0 = n.args[0]
            if isinstance(a0, ast.Subscript) and isinstance(a0.slice, ast.Slice) and a0.slice.upper is None and a0.slice.lower is not None:
                crc_from = const_value(a0.slice.lower)
        if isinstance(n, ast.BinOp) and isinstance(n.op, ast.BitAnd) and isinstance(n.right, ast.Constant):
            masks.append(n.right.value)
    if crc_from is None or len(masks) != 1:
        raise KeyError("_decode_message: `zlib.crc32(data[K:]) & MASK` not found")
    out += [("crcFrom", crc_from), ("crcMask", masks[0])]
    em = _find_func(kc, "encode_message")
    emasks = [n.right.value for n in _own_nodes(em) if isinstance(n, ast.BinOp) and isinstance(n.op, ast.BitAnd) and isinstance(n.right, ast.Constant)]
    if len(emasks) != 2 or set(emasks) != {masks[0]}:
        raise KeyError("_encode_message: crc masks changed: %s" % emasks)

    # ---- the offset increment of _encode_message_set ------------------------------------------------------
    ems = _find_func(kc, "encode_message_set")
    incrs = [const_value(s.value) for s in _own_nodes(ems) if isinstance(s, ast.Assign) and isinstance(s.targets[0], ast.Name) and s.targets[0].id == "incr"]
    if len(incrs) != 2:
        raise KeyError("_encode_message_set: incr assignments changed")
    out += [("msgSetIncr", incrs[0]), ("msgSetIncrNoOffset", incrs[1])]

    # ---- client: fetch_api_versions attempts, fallback values ---------------------------------------------------
    fav = src.func("client.py", "KafkaClient.fetch_api_versions")
    op, v = _compare_const(fav, lambda l: isinstance(l, ast.Name) and l.id == "api_version_failures", "fetch_api_versions: attempt bound not found")
    if op != "Lt":
        raise KeyError("fetch_api_versions: attempt test is no longer `<`")
    out.append(("apiVersionAttempts", v))
    gav = src.func("client.py", "KafkaClient.get_api_version")
    rets = [const_value(n.value) for n in ast.walk(gav) if isinstance(n, ast.Return) and isinstance(n.value, (ast.Constant, ast.UnaryOp))]
    # the lookup must be by api key: `for v in self._api_versions: if v.api_key == key: return int(v.max_version)`
    by_key = False
    for n in ast.walk(gav):
        if isinstance(n, ast.For) and isinstance(n.iter, ast.Attribute) and n.iter.attr == "_api_versions":
            for c in ast.walk(n):
                if (isinstance(c, ast.Compare) and isinstance(c.left, ast.Attribute) and c.left.attr == "api_key" and len(c.ops) == 1
                        and isinstance(c.ops[0], ast.Eq) and isinstance(c.comparators[0], ast.Name) and c.comparators[0].id == "key"):
                    by_key = True
    if not by_key:
        raise KeyError("get_api_version: the table is no longer searched by `api_key == key`")
    if len(rets) != 2:
        raise KeyError("get_api_version: expected the legacy fallback and the missing-key fallback as constant returns, found %s" % rets)
    out.append(("apiVersionFallback", rets[0]))
    out.append(("apiVersionMissingKey", rets[-1]))
    # ---- client glue: api_ver goes to BOTH the encoder and the decoder of produce / fetch -----------------------------
    def glue(fn_name, key_attr, enc_name, dec_name):
        fn = src.func("client.py", "KafkaClient." + fn_name)
        var = None
        for n in ast.walk(fn):
            if (isinstance(n, ast.Assign) and isinstance(n.value, ast.Yield) and isinstance(n.value.value, ast.Call)
                    and isinstance(n.value.value.func, ast.Attribute) and n.value.value.func.attr == "get_api_version"):
                arg = n.value.value.args[0]
                if not (isinstance(arg, ast.Attribute) and arg.attr == key_attr):
                    raise KeyError("%s: get_api_version is no longer asked for %s" % (fn_name, key_attr))
                var = n.targets[0].id
        if var is None:
            raise KeyError("%s: `api_ver = yield self.get_api_version(...)` not found" % fn_name)
        seen = set()
        for n in ast.walk(fn):
            if isinstance(n, ast.Call) and isinstance(n.func, ast.Name) and n.func.id == "partial" and n.args and isinstance(n.args[0], ast.Attribute):
                for kw in n.keywords:
                    if kw.arg == "api_version":
                        if not (isinstance(kw.value, ast.Name) and kw.value.id == var):
                            raise KeyError("%s: %s is not handed %s" % (fn_name, n.args[0].attr, var))
                        seen.add(n.args[0].attr)
        if seen != {enc_name, dec_name}:
            raise KeyError("%s: api_version is handed to %s, expected encoder and decoder" % (fn_name, sorted(seen)))
        return keys[key_attr]

    out.append(("glueProduceKey", glue("send_produce_request", "PRODUCE_KEY", "encode_produce_request", "decode_produce_response")))
    out.append(("glueFetchKey", glue("send_fetch_request", "FETCH_KEY", "encode_fetch_request", "decode_fetch_response")))
    spr = src.func("client.py", "KafkaClient.send_produce_request")
    if not any(isinstance(n, ast.If) and isinstance(n.test, ast.Compare) and isinstance(n.test.left, ast.Name) and n.test.left.id == "acks"
               and isinstance(n.test.ops[0], ast.Eq) and const_value(n.test.comparators[0]) == 0 for n in ast.walk(spr)):
        raise KeyError("send_produce_request: `if acks == 0: decoder = None` not found")

    # ---- producer: the message format is chosen by the truthiness of client._api_versions -------------------------
    sr = src.func("producer.py", "Producer._send_requests")
    found = None
    for n in ast.walk(sr):
        if isinstance(n, ast.If) and isinstance(n.test, ast.Attribute) and n.test.attr == "_api_versions":
            def magic_of(stmts):
                for s_ in stmts:
                    for c in ast.walk(s_):
                        if isinstance(c, ast.Call) and isinstance(c.func, ast.Name) and c.func.id == "create_message_set":
                            for kw in c.keywords:
                                if kw.arg == "magic":
                                    return const_value(kw.value)
                            return "default"
                raise KeyError("Producer._send_requests: create_message_set call not found in a branch")
            found = (magic_of(n.body), magic_of(n.orelse))
    if found is None:
        raise KeyError("Producer._send_requests: `if self.client._api_versions:` (truthiness test) not found")
    cms = _find_func(kc, "create_message_set")
    cms_default = None
    a = cms.args
    pos = a.posonlyargs + a.args
    for arg, d in zip(pos[len(pos) - len(a.defaults):], a.defaults):
        if arg.arg == "magic":
            cms_default = const_value(d)
    if cms_default is None:
        raise KeyError("create_message_set: default magic not found")
    out.append(("producerMagicWhenAdvertised", cms_default if found[0] == "default" else found[0]))
    out.append(("producerMagicOtherwise", cms_default if found[1] == "default" else found[1]))

    # every integer that is a struct argument / compared with one is an `Int` in the model
    nat_names = {"attributeCodecMask", "maxBrokers", "shortBytesMax", "crcFrom", "crcMask", "apiVersionAttempts"}
    return [(it[0], "Int", "(%d)" % it[1]) if len(it) == 2 and it[0] not in nat_names else it for it in out]
