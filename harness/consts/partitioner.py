"""Constants of afkak/partitioner.py used by Afkak/Murmur.lean and Afkak/Partitioner.lean, plus the
model TERM of `pure_murmur2` translated from its AST (harness/lib/pure_translate.py): the definition
`Afkak.Consts.genPureMurmur2 : List UInt8 → Nat → Option Nat` (`none` = IndexError) is regenerated on
every run and proved equal to the hand-written `Afkak.Murmur.pureMurmur2` for all inputs
(AfkakProofs/MurmurGen.lean, obligation C18_generated_murmur_eq_model).  A change to the function's
statements changes the term; anything outside the translator's subset raises (= a broken
correspondence), nothing is dropped."""
from harness.extract_consts import assigned, bitand_consts, default_arg
from harness.lib.pure_translate import translate_function


def extract(src):
    f = src.func("partitioner.py", "pure_murmur2")
    part = src.func("partitioner.py", "HashedPartitioner.partition")
    masks = bitand_consts(part)
    if len(masks) != 1:
        raise KeyError("HashedPartitioner.partition: expected one `& const`")
    # byte_array: bytearray (List UInt8); seed: a non-negative int (the model's `Nat`)
    gen_type, gen_term = translate_function(f, [("byte_array", "bytes"), ("seed", "nat")])
    return [
        ("murmurM", assigned(f, "m")),
        ("murmurR", assigned(f, "r")),
        ("murmurSeed", default_arg(f, "seed")),
        ("murmurMask32", assigned(f, "mod32bits")),
        ("hashedPositiveMask", masks[0]),
        ("/-- `pure_murmur2(byte_array, seed)` translated statement by statement from the AST of\n"
         "afkak/partitioner.py by harness/lib/pure_translate.py; `none` = IndexError. -/",),
        ("genPureMurmur2", gen_type, gen_term),
    ]
