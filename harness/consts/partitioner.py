"""Constants of afkak/partitioner.py used by Afkak/Murmur.lean and Afkak/Partitioner.lean."""
from harness.extract_consts import assigned, bitand_consts, default_arg


def extract(src):
    f = src.func("partitioner.py", "pure_murmur2")
    part = src.func("partitioner.py", "HashedPartitioner.partition")
    masks = bitand_consts(part)
    if len(masks) != 1:
        raise KeyError("HashedPartitioner.partition: expected one `& const`")
    return [
        ("murmurM", assigned(f, "m")),
        ("murmurR", assigned(f, "r")),
        ("murmurSeed", default_arg(f, "seed")),
        ("murmurMask32", assigned(f, "mod32bits")),
        ("hashedPositiveMask", masks[0]),
    ]
