"""Model TERMS regenerated from the source (harness/lib/wire_translate.py): for every function listed
in FUNCS the definition `Afkak.Consts.gen<Name>` is re-emitted from /repo's AST on every run and is
proved equal, for all inputs, to the hand-written model function of lean/Afkak/Wire/*.lean
(lean/AfkakProofs/Wire/GenEq*.lean; obligations `C04_generated_<fn>_eq_model` for writers/encoders,
`C05_generated_<fn>_eq_model` for readers/decoders).  A change to a statement, operator, constant,
format string, exception class, callee or argument changes the term and breaks the equality proof
(or leaves the translator's subset: reported as "source changed shape"); nothing is dropped silently
except the `isinstance` guards, which are listed in the generated file."""
import ast

from harness.consts.wire import _class_int_attrs
from harness.lib.wire_translate import Spec, WireTranslator, absrec, dct, ddict2, lst, rec, tup

LEAN_IMPORTS = ["Afkak.Wire.GenPrims"]

T_OPTBYTES_CUR = tup("optbytes", "int")

# (file, python qualified name, lean name, params, result)
FUNCS = [
    ("_util.py", "write_int_string", "genWriteIntString", [("s", "optbytes")], "bytes"),
    ("_util.py", "write_short_bytes", "genWriteShortBytes", [("b", "optbytes")], "bytes"),
    ("_util.py", "write_short_ascii", "genWriteShortAscii", [("s", "opttext")], "bytes"),
    ("_util.py", "write_short_text", "genWriteShortText", [("s", "opttext")], "bytes"),
    ("_util.py", "read_short_bytes", "genReadShortBytes", [("data", "bytes"), ("cur", "int")], T_OPTBYTES_CUR),
    ("_util.py", "read_int_string", "genReadIntString", [("data", "bytes"), ("cur", "int")], T_OPTBYTES_CUR),
    ("_util.py", "read_short_ascii", "genReadShortAscii", [("data", "bytes"), ("cur", "int")], tup("text", "int")),
    ("_util.py", "read_short_text", "genReadShortText", [("data", "bytes"), ("cur", "int")], tup("text", "int")),
    ("_util.py", "relative_unpack", "genRelativeUnpack", [("fmt", "fmt"), ("data", "bytes"), ("cur", "int")], tup("ints", "int")),
    # afkak/kafkacodec.py: the request envelope and the straight-line encoders / decoders
    ("kafkacodec.py", "KafkaCodec._encode_message_header", "genEncodeMessageHeader",
     [("client_id", "bytes"), ("correlation_id", "int"), ("request_key", "int"), ("api_version", "int")], "bytes"),
    ("kafkacodec.py", "KafkaCodec.encode_api_versions_request", "genEncodeApiVersionsRequest",
     [("client_id", "bytes"), ("correlation_id", "int"), ("api_version_request", rec(("api_key", "int"), ("api_version", "int")))], "bytes"),
    ("kafkacodec.py", "KafkaCodec.encode_consumermetadata_request", "genEncodeConsumermetadataRequest",
     [("client_id", "bytes"), ("correlation_id", "int"), ("consumer_group", "opttext")], "bytes"),
    ("kafkacodec.py", "KafkaCodec.encode_leave_group_request", "genEncodeLeaveGroupRequest",
     [("client_id", "bytes"), ("correlation_id", "int"), ("payload", rec(("group", "opttext"), ("member_id", "opttext")))], "bytes"),
    ("kafkacodec.py", "KafkaCodec.encode_heartbeat_request", "genEncodeHeartbeatRequest",
     [("client_id", "bytes"), ("correlation_id", "int"),
      ("payload", rec(("group", "opttext"), ("generation_id", "int"), ("member_id", "opttext")))], "bytes"),
    ("kafkacodec.py", "KafkaCodec.encode_sync_group_request", "genEncodeSyncGroupRequest",
     [("client_id", "bytes"), ("correlation_id", "int"),
      ("payload", rec(("group", "opttext"), ("generation_id", "int"), ("member_id", "opttext"),
                      ("group_assignment", lst(rec(("member_id", "opttext"), ("member_metadata", "optbytes"))))))], "bytes"),
    ("kafkacodec.py", "KafkaCodec.encode_join_group_request", "genEncodeJoinGroupRequest",
     [("client_id", "bytes"), ("correlation_id", "int"),
      ("payload", rec(("group", "opttext"), ("session_timeout", "int"), ("member_id", "opttext"), ("protocol_type", "opttext"),
                      ("group_protocols", lst(rec(("protocol_name", "opttext"), ("protocol_metadata", "optbytes"))))))], "bytes"),
    ("kafkacodec.py", "KafkaCodec.encode_join_group_protocol_metadata", "genEncodeJoinGroupProtocolMetadata",
     [("version", "int"), ("subscriptions", lst("opttext")), ("user_data", "optbytes")], "bytes"),
    ("kafkacodec.py", "KafkaCodec.get_response_correlation_id", "genGetResponseCorrelationId", [("data", "bytes")], "int"),
    ("kafkacodec.py", "KafkaCodec.decode_leave_group_response", "genDecodeLeaveGroupResponse", [("data", "bytes")], "int"),
    ("kafkacodec.py", "KafkaCodec.decode_heartbeat_response", "genDecodeHeartbeatResponse", [("data", "bytes")], "int"),
    ("kafkacodec.py", "KafkaCodec.decode_sync_group_response", "genDecodeSyncGroupResponse", [("data", "bytes")], tup("int", "optbytes")),
]

# result records built positionally by the decoders: name -> number of fields
CTORS = {"ProduceResponse": 4, "OffsetCommitResponse": 3, "OffsetFetchResponse": 5, "OffsetResponse": 4, "BrokerMetadata": 3, "PartitionMetadata": 6, "TopicMetadata": 3, "_SyncGroupMemberAssignment": 3, "ConsumerMetadataResponse": 4, "_LeaveGroupResponse": 1, "_HeartbeatResponse": 1, "_SyncGroupResponse": 2, "ApiVersion": 3, "ApiVersionResponse": 2,
         "_JoinGroupProtocolMetadata": 3, "_JoinGroupResponseMember": 2, "_JoinGroupResponse": 6}

T_API_VERSION = tup("int", "int", "int")
T_MEMBER = tup("text", "optbytes")
# decoders with a `for _i in range(n)` loop: (.., declared types of the list locals)
LOOP_FUNCS = [
    ("kafkacodec.py", "KafkaCodec.decode_api_versions_response", "genDecodeApiVersionsResponse", [("data", "bytes")],
     tup("int", lst(T_API_VERSION)), {"api_versions": lst(T_API_VERSION)}),
    ("kafkacodec.py", "KafkaCodec.decode_join_group_protocol_metadata", "genDecodeJoinGroupProtocolMetadata", [("data", "bytes")],
     tup("int", lst("text"), "optbytes"), {"subscriptions": lst("text")}),
    ("kafkacodec.py", "KafkaCodec.decode_join_group_response", "genDecodeJoinGroupResponse", [("data", "bytes")],
     tup("int", "int", "text", "text", "text", lst(T_MEMBER)), {"members": lst(T_MEMBER)}),
]


def _module_exprs(tree):
    out = {}
    for s in tree.body:
        if isinstance(s, ast.Assign) and len(s.targets) == 1 and isinstance(s.targets[0], ast.Name):
            out[s.targets[0].id] = s.value
    return out


def _exc_helpers(tree):
    """module-level functions whose body (after a docstring) is exactly `return <Exception>(...)`"""
    out = {}
    for s in tree.body:
        if isinstance(s, ast.FunctionDef):
            body = [b for b in s.body if not (isinstance(b, ast.Expr) and isinstance(b.value, ast.Constant))]
            if len(body) == 1 and isinstance(body[0], ast.Return) and isinstance(body[0].value, ast.Call) \
                    and isinstance(body[0].value.func, ast.Name) and body[0].value.func.id.endswith("Error"):
                out[s.name] = body[0].value.func.id
    return out


def extract(src):
    util = src.tree("_util.py")
    codec = src.tree("kafkacodec.py")
    specs = []
    for fn, qual, lean, params, ret in FUNCS:
        specs.append(Spec(qual.split(".")[-1], lean, params, ret, src.func(fn, qual)))
    for fn, qual, lean, params, ret, local_types in LOOP_FUNCS:
        specs.append(Spec(qual.split(".")[-1], lean, params, ret, src.func(fn, qual), local_types=local_types))
    # group_by_topic_and_partition(tuples): generic in the payload type, of which it reads .topic and .partition
    payload = absrec("α", ("topic", "opttext"), ("partition", "int"))
    grouped = ddict2("opttext", "int", payload)
    specs.append(Spec("group_by_topic_and_partition", "genGroupByTopicAndPartition", [("tuples", lst(payload))], grouped,
                      src.func("_util.py", "group_by_topic_and_partition"),
                      generic=("α", [("topic", "opttext"), ("partition", "int")]), local_types={"out": grouped}))
    mod_exprs = {k: v for k, v in _module_exprs(util).items() if k == "_NULL_SHORT_STRING"}
    if "_NULL_SHORT_STRING" not in mod_exprs:
        raise KeyError("_util._NULL_SHORT_STRING not found")
    kc = _module_exprs(codec)
    if "MAX_BROKERS" not in kc:
        raise KeyError("kafkacodec.MAX_BROKERS not found")
    mod_exprs["MAX_BROKERS"] = kc["MAX_BROKERS"]
    # _group_payloads(payloads) and the broker-aware encoders: generic in the payload type
    def generic(name, lean, fn, qual, params_of, ret_of, attrs, local_types=None):
        pl = absrec("α", *attrs)
        specs.append(Spec(name, lean, params_of(pl), ret_of(pl), src.func(fn, qual), generic=("α", list(attrs)),
                          local_types=local_types))

    TP = [("topic", "opttext"), ("partition", "int")]
    generic("_group_payloads", "genGroupPayloads", "kafkacodec.py", "_group_payloads",
            lambda pl: [("payloads", lst(pl))], lambda pl: ddict2("opttext", "int", pl), TP)
    hdr = [("client_id", "bytes"), ("correlation_id", "int")]
    generic("encode_fetch_request", "genEncodeFetchRequest", "kafkacodec.py", "KafkaCodec.encode_fetch_request",
            lambda pl: hdr + [("payloads", lst(pl)), ("max_wait_time", "int"), ("min_bytes", "int"), ("api_version", "int")],
            lambda pl: "bytes", TP + [("offset", "int"), ("max_bytes", "int")])
    generic("encode_offset_request", "genEncodeOffsetRequest", "kafkacodec.py", "KafkaCodec.encode_offset_request",
            lambda pl: hdr + [("payloads", lst(pl))], lambda pl: "bytes", TP + [("time", "int"), ("max_offsets", "int")])
    generic("encode_offset_commit_request", "genEncodeOffsetCommitRequest", "kafkacodec.py", "KafkaCodec.encode_offset_commit_request",
            lambda pl: hdr + [("group", "opttext"), ("group_generation_id", "int"), ("consumer_id", "opttext"), ("payloads", lst(pl))],
            lambda pl: "bytes", TP + [("offset", "int"), ("timestamp", "int"), ("metadata", "optbytes")])
    generic("encode_offset_fetch_request", "genEncodeOffsetFetchRequest", "kafkacodec.py", "KafkaCodec.encode_offset_fetch_request",
            lambda pl: hdr + [("group", "opttext"), ("payloads", lst(pl))], lambda pl: "bytes", TP)
    specs.append(Spec("encode_sync_group_member_assignment", "genEncodeSyncGroupMemberAssignment",
                      [("version", "int"), ("assignments", dct("opttext", "ints")), ("user_data", "optbytes")], "bytes",
                      src.func("kafkacodec.py", "KafkaCodec.encode_sync_group_member_assignment")))
    specs.append(Spec("decode_sync_group_member_assignment", "genDecodeSyncGroupMemberAssignment", [("data", "bytes")],
                      tup("int", dct("text", "ints"), "optbytes"),
                      src.func("kafkacodec.py", "KafkaCodec.decode_sync_group_member_assignment"),
                      local_types={"assignments": dct("text", "ints")}))
    specs.append(Spec("decode_consumermetadata_response", "genDecodeConsumermetadataResponse", [("data", "bytes")],
                      tup("int", "int", "text", "int"), src.func("kafkacodec.py", "KafkaCodec.decode_consumermetadata_response")))
    t_broker = tup("int", "text", "int")
    t_part = tup("text", "int", "int", "int", "ints", "ints")
    t_topic = tup("text", "int", dct("int", t_part))
    specs.append(Spec("decode_metadata_response", "genDecodeMetadataResponse", [("data", "bytes")],
                      tup(dct("int", t_broker), dct("text", t_topic)),
                      src.func("kafkacodec.py", "KafkaCodec.decode_metadata_response"),
                      local_types={"brokers": dct("int", t_broker), "topic_metadata": dct("text", t_topic),
                                   "partition_metadata": dct("int", t_part)}))
    for name, lean, item, lt in [
        ("decode_offset_commit_response", "genDecodeOffsetCommitResponse", tup("text", "int", "int"), {}),
        ("decode_offset_fetch_response", "genDecodeOffsetFetchResponse", tup("text", "int", "int", "optbytes", "int"), {}),
        ("decode_offset_response", "genDecodeOffsetResponse", tup("text", "int", "int", "ints"), {"offsets": "ints"}),
    ]:
        specs.append(Spec(name, lean, [("data", "bytes")], None, src.func("kafkacodec.py", "KafkaCodec." + name),
                          local_types=lt, generator=item))
    for nested, lean in [("v0", "genDecodeProduceResponseV0"), ("v2", "genDecodeProduceResponseV2")]:
        specs.append(Spec(nested, lean, [("data", "bytes")], None,
                          src.func("kafkacodec.py", "KafkaCodec.decode_produce_response." + nested),
                          generator=tup("text", "int", "int", "int")))
    specs.append(Spec("encode_metadata_request", "genEncodeMetadataRequest",
                      hdr + [("topics", lst("opttext"))], "bytes", src.func("kafkacodec.py", "KafkaCodec.encode_metadata_request")))
    tr = WireTranslator(
        specs,
        class_consts={"KafkaCodec": _class_int_attrs(codec, "KafkaCodec")},
        exc_helpers=_exc_helpers(util),
        module_exprs=mod_exprs,
        ctors=CTORS,
    )
    items = [("open Afkak Afkak.Bytes Afkak.Wire",)]
    for sp in specs:
        ty, term, skipped = tr.translate(sp)
        doc = "/-- `%s` translated statement by statement from /repo's AST by harness/lib/wire_translate.py.%s -/" % (
            sp.py, (" Skipped: " + "; ".join(skipped) + ".") if skipped else "")
        items.append((doc,))
        items.append((sp.lean, ty, term))
    return items
