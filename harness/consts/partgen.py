"""Model TERM of `HashedPartitioner.partition` regenerated from the AST of afkak/partitioner.py
(harness/lib/pure_translate.py): `Afkak.Consts.genHashedPartition : Nat → List Int → Option Int`
(`none` = ZeroDivisionError / IndexError).  The call `self._hash(key)` is an INPUT of the term (the
opaque 'nat' parameter `h`); the term is the mask, the modulo by `len(partitions)` and the list
lookup.  It is proved equal to the hand-written `Afkak.Partitioner.hashed` with `h` = the model's
`pureMurmur2 key` (AfkakProofs/Partitioner/GenEq.lean, obligation C18_generated_partition_eq_model);
`pure_murmur2` itself is tied by C18_generated_murmur_eq_model, and that `_hash` coerces the key and
calls `pure_murmur2` by the correspondence check.  `RoundRobinPartitioner` (an object holding an
`itertools.cycle`) is outside the translator's subset: hand-modelled + correspondence-tied."""
from harness.lib.pure_translate import translate_function

LEAN_IMPORTS = ["Afkak.Partitioner"]


def extract(src):
    part = src.func("partitioner.py", "HashedPartitioner.partition")
    ty, term = translate_function(
        part,
        [("h", "nat"), ("partitions", "ints")],
        signature=["self", "key", "partitions"],
        opaque={"self._hash(key)": "h"},
    )
    return [
        ("/-- `HashedPartitioner.partition(key, partitions)` with `h = self._hash(key)`, translated from the AST of\n"
         "afkak/partitioner.py by harness/lib/pure_translate.py; `none` = ZeroDivisionError / IndexError. -/",),
        ("genHashedPartition", ty, term),
    ]
