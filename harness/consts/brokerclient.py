"""Source-derived constants of afkak/_protocol.py, afkak/brokerclient.py and
`KafkaCodec.get_response_correlation_id`, used by Afkak/Frame.lean, Afkak/BrokerClient.lean and
Afkak/Bootstrap.lean.

* `kafkaMaxLength`            `_BaseKafkaProtocol.MAX_LENGTH`
* `respCorrIdWidth/Signed`    the struct format `get_response_correlation_id` unpacks (">i")
* `bootRespIdLo/Hi`, `bootReqIdLo/Hi`   the slices `response[0:4]` / `request[4:8]` of the bootstrap protocol
* `closePopLast`              the argument of `self.requests.popitem(...)` in `close()`

The framing loop itself is Twisted's `Int32StringReceiver`; the extractor insists that the afkak
protocol classes still derive from it and override none of `dataReceived`, `structFormat`,
`prefixLength` (else the model of the loop no longer applies: KeyError = source changed shape).
"""
import ast


def _arith(node):
    """Evaluate a constant arithmetic expression (ints only)."""
    if isinstance(node, ast.Constant) and isinstance(node.value, int) and not isinstance(node.value, bool):
        return node.value
    if isinstance(node, ast.UnaryOp) and isinstance(node.op, ast.USub):
        return -_arith(node.operand)
    if isinstance(node, ast.BinOp):
        a, b = _arith(node.left), _arith(node.right)
        if isinstance(node.op, ast.Add):
            return a + b
        if isinstance(node.op, ast.Sub):
            return a - b
        if isinstance(node.op, ast.Mult):
            return a * b
        if isinstance(node.op, ast.Pow) and 0 <= b <= 128:
            return a ** b
        if isinstance(node.op, ast.LShift) and 0 <= b <= 128:
            return a << b
    raise KeyError("not a constant integer expression: %s" % ast.dump(node))


def _class(tree, name):
    for n in tree.body:
        if isinstance(n, ast.ClassDef) and n.name == name:
            return n
    raise KeyError("class %s not found" % name)


def _bases(cls):
    return [b.id if isinstance(b, ast.Name) else getattr(b, "attr", "?") for b in cls.bases]


def _class_assigns(cls):
    out = {}
    for n in cls.body:
        if isinstance(n, ast.Assign):
            for t in n.targets:
                if isinstance(t, ast.Name):
                    out[t.id] = n.value
        elif isinstance(n, ast.AnnAssign) and isinstance(n.target, ast.Name) and n.value is not None:
            out[n.target.id] = n.value
    return out


def _methods(cls):
    return {n.name for n in cls.body if isinstance(n, (ast.FunctionDef, ast.AsyncFunctionDef))}


FRAMING = {"dataReceived", "structFormat", "prefixLength", "sendString", "_unprocessed", "recvd", "paused", "makeConnection"}


def _slices(fn, var):
    """(lo, hi) of every `var[lo:hi]` with constant bounds inside fn, in source order."""
    out = []
    for n in ast.walk(fn):
        if isinstance(n, ast.Subscript) and isinstance(n.value, ast.Name) and n.value.id == var and isinstance(n.slice, ast.Slice):
            s = n.slice
            if s.step is not None or s.lower is None or s.upper is None:
                raise KeyError("unexpected slice of %s" % var)
            out.append((n.lineno, n.col_offset, _arith(s.lower), _arith(s.upper)))
    return [(a, b) for _, _, a, b in sorted(out)]


def extract(src):
    proto = src.tree("_protocol.py")
    base = _class(proto, "_BaseKafkaProtocol")
    if _bases(base) != ["Int32StringReceiver"]:
        raise KeyError("_BaseKafkaProtocol no longer derives from Int32StringReceiver: %s" % _bases(base))
    imported = False
    for n in ast.walk(proto):
        if isinstance(n, ast.ImportFrom) and n.module == "twisted.protocols.basic" and any(a.name == "Int32StringReceiver" and a.asname is None for a in n.names):
            imported = True
    if not imported:
        raise KeyError("Int32StringReceiver is not imported from twisted.protocols.basic")
    ba = _class_assigns(base)
    if "MAX_LENGTH" not in ba:
        raise KeyError("_BaseKafkaProtocol.MAX_LENGTH not found")
    if (set(ba) | _methods(base)) & FRAMING:
        raise KeyError("_BaseKafkaProtocol overrides the framing of Int32StringReceiver")
    for cn in ("KafkaProtocol", "KafkaBootstrapProtocol"):
        c = _class(proto, cn)
        if _bases(c) != ["_BaseKafkaProtocol"]:
            raise KeyError("%s no longer derives from _BaseKafkaProtocol" % cn)
        if (set(_class_assigns(c)) | _methods(c)) & (FRAMING | {"MAX_LENGTH"}):
            raise KeyError("%s overrides the framing or the length limit" % cn)
    max_length = _arith(ba["MAX_LENGTH"])

    # get_response_correlation_id: relative_unpack(">i", data, 0)
    f = src.func("kafkacodec.py", "KafkaCodec.get_response_correlation_id")
    fmts = []
    for n in ast.walk(f):
        if isinstance(n, ast.Call) and getattr(n.func, "id", getattr(n.func, "attr", None)) in ("relative_unpack", "unpack", "unpack_from"):
            a = n.args
            if not (a and isinstance(a[0], ast.Constant) and isinstance(a[0].value, str)):
                raise KeyError("get_response_correlation_id: unreadable format")
            if n.func.__class__ is ast.Name and n.func.id == "relative_unpack":
                if len(a) != 3 or _arith(a[2]) != 0:
                    raise KeyError("get_response_correlation_id: does not read at offset 0")
            fmts.append(a[0].value)
    if len(fmts) != 1:
        raise KeyError("get_response_correlation_id: expected exactly one unpack")
    fmt = fmts[0]
    table = {">i": (4, True), "!i": (4, True), ">I": (4, False), "!I": (4, False), ">h": (2, True), ">H": (2, False), ">q": (8, True), ">Q": (8, False)}
    if fmt not in table:
        raise KeyError("get_response_correlation_id: format %r is not a big-endian integer" % fmt)
    width, signed = table[fmt]

    boot = _class(proto, "KafkaBootstrapProtocol")
    meths = {n.name: n for n in boot.body if isinstance(n, ast.FunctionDef)}
    rs = _slices(meths["stringReceived"], "response")
    qs = _slices(meths["request"], "request")
    if len(rs) != 1 or len(qs) != 1:
        raise KeyError("KafkaBootstrapProtocol: correlation id slices not found")

    close = src.func("brokerclient.py", "_KafkaBrokerClient.close")
    pops = [n for n in ast.walk(close) if isinstance(n, ast.Call) and isinstance(n.func, ast.Attribute) and n.func.attr == "popitem"]
    if len(pops) != 1:
        raise KeyError("_KafkaBrokerClient.close: popitem call not found")
    pa = pops[0].args
    if len(pa) == 0 and not pops[0].keywords:
        pop_last = True
    elif len(pa) == 1 and isinstance(pa[0], ast.Constant) and isinstance(pa[0].value, bool):
        pop_last = pa[0].value
    elif len(pops[0].keywords) == 1 and pops[0].keywords[0].arg == "last" and isinstance(pops[0].keywords[0].value, ast.Constant):
        pop_last = bool(pops[0].keywords[0].value.value)
    else:
        raise KeyError("_KafkaBrokerClient.close: unreadable popitem argument")

    return [
        ("kafkaMaxLength", max_length),
        ("respCorrIdWidth", width),
        ("respCorrIdSigned", signed),
        ("bootRespIdLo", rs[0][0]),
        ("bootRespIdHi", rs[0][1]),
        ("bootReqIdLo", qs[0][0]),
        ("bootReqIdHi", qs[0][1]),
        ("closePopLast", pop_last),
    ]
