"""Constants of afkak/kafkacodec.py, afkak/common.py and afkak/consumer.py used by the C12 models
(Afkak/WireCost.lean): count guard, codec mask and codes, the `struct` format of every
`relative_unpack` call of every decoder (keyed by decoder and ordinal, as `List Char` without the
byte-order mark), and the literals of the consumer's buffer-growth rule.

All names carry the prefix `c12` so that they cannot collide with another plugin's names in
`namespace Afkak.Consts`.
"""
import ast

from harness.extract_consts import assigned, const_value

# decoder -> (lean suffix, expected number of relative_unpack calls, in source order)
DECODERS = [
    ("_decode_message_set_iter", "msgset", 1),
    ("_decode_message", "message", 2),
    ("decode_api_versions_response", "apiversions", 2),
    ("decode_produce_response", "produce", 7),
    ("decode_fetch_response", "fetch", 4),
    ("decode_offset_response", "offset", 4),
    ("decode_metadata_response", "metadata", 10),
    ("decode_consumermetadata_response", "consumermetadata", 2),
    ("decode_offset_commit_response", "offsetcommit", 4),
    ("decode_offset_fetch_response", "offsetfetch", 5),
    ("decode_join_group_protocol_metadata", "joinmeta", 1),
    ("decode_join_group_response", "join", 2),
    ("decode_leave_group_response", "leave", 1),
    ("decode_heartbeat_response", "heartbeat", 1),
    ("decode_sync_group_response", "sync", 1),
    ("decode_sync_group_member_assignment", "assignment", 3),
]


def _calls_in_order(fn, name):
    out = []
    for n in ast.walk(fn):
        if isinstance(n, ast.Call) and isinstance(n.func, ast.Name) and n.func.id == name:
            out.append(n)
    out.sort(key=lambda n: (n.lineno, n.col_offset))
    return out


def _fmt(node):
    """-> ('fixed', 'ihq') | ('counted', 'i')   for  ">ihq"  /  ">%di" % n  /  ">%si" % n"""
    if isinstance(node, ast.Constant) and isinstance(node.value, str):
        s = node.value
        if not s.startswith(">") or "%" in s:
            raise KeyError("unexpected struct format %r" % s)
        return ("fixed", s[1:])
    if isinstance(node, ast.BinOp) and isinstance(node.op, ast.Mod) and isinstance(node.left, ast.Constant):
        s = node.left.value
        if len(s) == 4 and s[0] == ">" and s[1] == "%" and s[2] in "ds":
            return ("counted", s[3])
        raise KeyError("unexpected counted struct format %r" % s)
    raise KeyError("struct format is not a literal: %s" % ast.dump(node))


def _chars(s):
    return "[" + ", ".join("'%s'" % c for c in s) + "]"


def _growth(src):
    """The literals of the `except ConsumerFetchSizeTooSmall` handler in Consumer._handle_fetch_response:
    factor = 2; if self.buffer_size <= 2**20: factor = 16."""
    fn = src.func("consumer.py", "Consumer._handle_fetch_response")
    handler = None
    for n in ast.walk(fn):
        if isinstance(n, ast.ExceptHandler) and isinstance(n.type, ast.Name) and n.type.id == "ConsumerFetchSizeTooSmall":
            handler = n
    if handler is None:
        raise KeyError("except ConsumerFetchSizeTooSmall not found in _handle_fetch_response")
    base = None
    big = None
    thresh = None
    for n in handler.body:
        if isinstance(n, ast.Assign) and isinstance(n.targets[0], ast.Name) and n.targets[0].id == "factor":
            base = const_value(n.value)
        if isinstance(n, ast.If) and isinstance(n.test, ast.Compare) and isinstance(n.test.ops[0], ast.LtE):
            left = n.test.left
            if isinstance(left, ast.Attribute) and left.attr == "buffer_size":
                thresh = const_value(n.test.comparators[0])
                for m in n.body:
                    if isinstance(m, ast.Assign) and m.targets[0].id == "factor":
                        big = const_value(m.value)
    if None in (base, big, thresh):
        raise KeyError("buffer growth rule changed shape")
    return base, big, thresh


def extract(src):
    kc = src.tree("kafkacodec.py")
    cm = src.tree("common.py")
    out = [
        ("c12MaxBrokers", assigned(kc, "MAX_BROKERS")),
        ("c12CodecMask", assigned(kc, "ATTRIBUTE_CODEC_MASK")),
        ("c12CodecNone", assigned(cm, "CODEC_NONE")),
        ("c12CodecGzip", assigned(cm, "CODEC_GZIP")),
        ("c12CodecSnappy", assigned(cm, "CODEC_SNAPPY")),
    ]
    for fname, suffix, expect in DECODERS:
        fn = src.func("kafkacodec.py", "KafkaCodec." + fname)
        calls = _calls_in_order(fn, "relative_unpack")
        if len(calls) != expect:
            raise KeyError("%s: expected %d relative_unpack calls, found %d" % (fname, expect, len(calls)))
        for i, c in enumerate(calls):
            kind, chars = _fmt(c.args[0])
            if kind == "fixed":
                out.append(("c12Fmt_%s_%d" % (suffix, i), "List Char", _chars(chars)))
            else:
                out.append(("c12Rep_%s_%d" % (suffix, i), "Char", "'%s'" % chars))
    base, big, thresh = _growth(src)
    out += [("c12GrowFactor", base), ("c12GrowFactorSmall", big), ("c12GrowThreshold", thresh)]
    return out
