"""Constants of afkak/_group.py, afkak/kafkacodec.py and afkak/_util.py used by Afkak/Assign.lean:
field widths of every struct format in the member-assignment / member-metadata codecs and in the
string primitives they call, the short-string length limit, and the protocol version numbers.

A format the model does not know how to read (anything but big-endian b/h/i/q fields), or a call
that is no longer where it was, is a KeyError: the code has changed shape.
"""
import ast

WIDTH = {"b": 1, "h": 2, "i": 4, "q": 8}


def _fmt_of(node):
    """A struct format argument: a string constant, or `"..%s.." % n` (returned with the %s kept)."""
    if isinstance(node, ast.Constant) and isinstance(node.value, str):
        return node.value
    if isinstance(node, ast.BinOp) and isinstance(node.op, ast.Mod) and isinstance(node.left, ast.Constant):
        return node.left.value
    raise KeyError("unreadable struct format: %s" % ast.dump(node))


def _calls(scope, names):
    """Format strings of struct.pack / struct.unpack / relative_unpack calls, in source order."""
    out = []
    for n in ast.walk(scope):
        if isinstance(n, ast.Call):
            f = n.func
            nm = f.attr if isinstance(f, ast.Attribute) else getattr(f, "id", None)
            if nm in names and n.args:
                out.append((n.lineno, n.col_offset, _fmt_of(n.args[0])))
    return [f for _, _, f in sorted(out)]


def _widths(fmt):
    """'>hi' -> [2, 4];  '>i%si' -> ([4], 4) as (fixed, repeated)."""
    if not fmt.startswith(">"):
        raise KeyError("format %r is not big-endian" % fmt)
    body = fmt[1:]
    if "%s" in body:
        pre, post = body.split("%s")
        if len(post) != 1:
            raise KeyError("format %r: expected one repeated field" % fmt)
        return [WIDTH[c] for c in pre], WIDTH[post]
    return [WIDTH[c] for c in body]


def _one(fmt):
    w = _widths(fmt)
    if not (isinstance(w, list) and len(w) == 1):
        raise KeyError("format %r: expected exactly one field" % fmt)
    return w[0]


def _compare_const(scope, lhs, op):
    """The constant c of the first comparison `<lhs> <op> c` in scope (lhs: a Name id or 'len')."""
    for n in ast.walk(scope):
        if isinstance(n, ast.Compare) and len(n.ops) == 1 and isinstance(n.ops[0], op):
            left = n.left
            nm = left.id if isinstance(left, ast.Name) else (left.func.id if isinstance(left, ast.Call) and isinstance(left.func, ast.Name) else None)
            if nm == lhs:
                c = n.comparators[0]
                if isinstance(c, ast.Constant):
                    return c.value
                if isinstance(c, ast.UnaryOp) and isinstance(c.op, ast.USub):
                    return -c.operand.value
    raise KeyError("comparison %s %s <const> not found" % (lhs, op.__name__))


def _skip_const(scope):
    """The one positive integer literal used for `cur + k`, `data[cur:cur + k]`, `cur += k` in a reader."""
    negated = {id(n.operand) for n in ast.walk(scope) if isinstance(n, ast.UnaryOp) and isinstance(n.op, ast.USub)}
    vals = {
        n.value
        for n in ast.walk(scope)
        if isinstance(n, ast.Constant) and isinstance(n.value, int) and not isinstance(n.value, bool) and id(n) not in negated and n.value > 0
    }
    if len(vals) != 1:
        raise KeyError("reader: expected one length-prefix size literal, found %s" % sorted(vals))
    return vals.pop()


def _kw_const(scope, callee, kw):
    for n in ast.walk(scope):
        if isinstance(n, ast.Call) and isinstance(n.func, ast.Attribute) and n.func.attr == callee:
            for k in n.keywords:
                if k.arg == kw and isinstance(k.value, ast.Constant):
                    return k.value.value
    raise KeyError("%s(%s=<const>) not found" % (callee, kw))


def _check_leader_glue(fn):
    """Pin the shape of the leader's glue in Coordinator._join_and_sync that harness/props/c15.py replays and
    Afkak.Assign.leaderAssign models: generate_assignments(members, topic_partitions={}) inside a try whose
    `except _NeedTopicPartitions as e` handler calls _load_topic_partitions(*e.topics) and then
    generate_assignments(members, topic_partitions=<what it returned>)."""

    def gen_calls(nodes):
        out = []
        for st in nodes:
            for n in ast.walk(st):
                if isinstance(n, ast.Call) and isinstance(n.func, ast.Attribute) and n.func.attr == "generate_assignments":
                    out.append(n)
        return out

    for t in ast.walk(fn):
        if not isinstance(t, ast.Try):
            continue
        first = gen_calls(t.body)
        if len(first) != 1:
            continue
        kw = {k.arg: k.value for k in first[0].keywords}
        if not (isinstance(kw.get("topic_partitions"), ast.Dict) and not kw["topic_partitions"].keys):
            raise KeyError("_join_and_sync: first generate_assignments call no longer passes topic_partitions={}")
        hs = [h for h in t.handlers if isinstance(h.type, ast.Name) and h.type.id == "_NeedTopicPartitions"]
        if len(hs) != 1 or len(t.handlers) != 1 or not hs[0].name:
            raise KeyError("_join_and_sync: expected exactly one handler `except _NeedTopicPartitions as e`")
        h = hs[0]
        loads = [n for st in h.body for n in ast.walk(st) if isinstance(n, ast.Call) and isinstance(n.func, ast.Attribute) and n.func.attr == "_load_topic_partitions"]
        if len(loads) != 1 or len(loads[0].args) != 1 or loads[0].keywords:
            raise KeyError("_join_and_sync: expected one _load_topic_partitions(*e.topics) call in the handler")
        a = loads[0].args[0]
        if not (isinstance(a, ast.Starred) and isinstance(a.value, ast.Attribute) and a.value.attr == "topics" and isinstance(a.value.value, ast.Name) and a.value.value.id == h.name):
            raise KeyError("_join_and_sync: _load_topic_partitions is no longer called with *e.topics")
        second = gen_calls(h.body)
        if len(second) != 1:
            raise KeyError("_join_and_sync: expected one generate_assignments call in the handler")
        kw2 = {k.arg: k.value for k in second[0].keywords}
        if not isinstance(kw2.get("topic_partitions"), ast.Name):
            raise KeyError("_join_and_sync: second generate_assignments call does not pass the loaded map")
        if ast.dump(first[0].args[0]) != ast.dump(second[0].args[0]):
            raise KeyError("_join_and_sync: the two generate_assignments calls take different member lists")
        return
    raise KeyError("_join_and_sync: leader glue (try: generate_assignments ... except _NeedTopicPartitions) not found")


def extract(src):
    _check_leader_glue(src.func("_group.py", "Coordinator._join_and_sync"))
    enc = src.func("kafkacodec.py", "KafkaCodec.encode_sync_group_member_assignment")
    dec = src.func("kafkacodec.py", "KafkaCodec.decode_sync_group_member_assignment")
    menc = src.func("kafkacodec.py", "KafkaCodec.encode_join_group_protocol_metadata")
    mdec = src.func("kafkacodec.py", "KafkaCodec.decode_join_group_protocol_metadata")
    gen = src.func("_group.py", "_ConsumerProtocol.generate_assignments")
    jgp = src.func("_group.py", "_ConsumerProtocol.join_group_protocols")
    wsb = src.func("_util.py", "write_short_bytes")
    wis = src.func("_util.py", "write_int_string")
    rsb = src.func("_util.py", "read_short_bytes")
    ris = src.func("_util.py", "read_int_string")

    e = _calls(enc, {"pack"})
    if len(e) != 3:
        raise KeyError("encode_sync_group_member_assignment: expected 3 struct.pack calls, found %d" % len(e))
    e_fixed, e_rep = _widths(e[2])
    if len(e_fixed) != 1:
        raise KeyError("encode_sync_group_member_assignment: partition format %r" % e[2])
    d = _calls(dec, {"relative_unpack"})
    if len(d) != 3:
        raise KeyError("decode_sync_group_member_assignment: expected 3 relative_unpack calls, found %d" % len(d))
    d_hdr = _widths(d[0])
    if len(d_hdr) != 2:
        raise KeyError("decode_sync_group_member_assignment: header format %r" % d[0])
    d_fixed, d_rep = _widths(d[2])
    if d_fixed:
        raise KeyError("decode_sync_group_member_assignment: partition format %r" % d[2])
    me = _calls(menc, {"pack"})
    md = _calls(mdec, {"relative_unpack"})
    if len(me) != 1 or len(md) != 1 or len(_widths(me[0])) != 2 or len(_widths(md[0])) != 2:
        raise KeyError("join_group_protocol_metadata codecs: unexpected struct calls %r %r" % (me, md))
    wsb_f, wis_f = _calls(wsb, {"pack"}), _calls(wis, {"pack"})
    rsb_f, ris_f = _calls(rsb, {"unpack"}), _calls(ris, {"unpack"})
    if len(wsb_f) != 1 or len(rsb_f) != 1 or len(ris_f) != 1 or len(wis_f) != 2 or wis_f[0] != wis_f[1]:
        raise KeyError("string primitives: unexpected struct calls")
    return [
        # encode_sync_group_member_assignment: ">h", ">i", ">i%si"
        ("asgMaEncVersionW", _one(e[0])),
        ("asgMaEncNumTopicsW", _one(e[1])),
        ("asgMaEncNumPartsW", e_fixed[0]),
        ("asgMaEncPartW", e_rep),
        # decode_sync_group_member_assignment: ">hi", ">i", ">%si"
        ("asgMaDecVersionW", d_hdr[0]),
        ("asgMaDecNumTopicsW", d_hdr[1]),
        ("asgMaDecNumPartsW", _one(d[1])),
        ("asgMaDecPartW", d_rep),
        ("asgMaSupportedVersion", "Int", "(%d)" % _compare_const(dec, "version", ast.NotEq)),
        ("asgMaEncodedVersion", "Int", "(%d)" % _kw_const(gen, "encode_sync_group_member_assignment", "version")),
        # encode/decode_join_group_protocol_metadata: ">hi"
        ("asgMmEncVersionW", _widths(me[0])[0]),
        ("asgMmEncNumSubsW", _widths(me[0])[1]),
        ("asgMmDecVersionW", _widths(md[0])[0]),
        ("asgMmDecNumSubsW", _widths(md[0])[1]),
        ("asgMmEncodedVersion", "Int", "(%d)" % _kw_const(jgp, "encode_join_group_protocol_metadata", "version")),
        # _util string primitives
        ("asgShortStrMax", _compare_const(wsb, "len", ast.Gt)),
        ("asgShortLenEncW", _one(wsb_f[0])),
        ("asgShortLenDecW", _one(rsb_f[0])),
        ("asgIntLenEncW", _one(wis_f[0])),
        ("asgIntLenDecW", _one(ris_f[0])),
        ("asgShortLenSkip", _skip_const(rsb)),
        ("asgIntLenSkip", _skip_const(ris)),
        # `if strlen < 0: raise BufferUnderflowError` (lengths below -1 are rejected)
        ("asgShortLenFloor", "Int", "(%d)" % _compare_const(rsb, "strlen", ast.Lt)),
        ("asgIntLenFloor", "Int", "(%d)" % _compare_const(ris, "strlen", ast.Lt)),
        ("asgShortNull", "Int", "(%d)" % _compare_const(rsb, "strlen", ast.Eq)),
        ("asgIntNull", "Int", "(%d)" % _compare_const(ris, "strlen", ast.Eq)),
    ]
