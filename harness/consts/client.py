"""Constants of afkak/client.py (and the errno table rows it names) used by Afkak/ClientCache.lean and
Afkak/ClientNet.lean: default timeouts, the exception tuples caught in KafkaClient._handle_responses
(as errno lists), whether a catch-all BrokerResponseError handler exists (F7 fix), the group join
min_timeout, the default Kafka port."""
import ast

from harness.extract_consts import assigned, const_value


def _errno_table(src):
    """class name -> errno for every class in common.py with `errno = <int>`"""
    out = {}
    for n in ast.walk(src.tree("common.py")):
        if isinstance(n, ast.ClassDef):
            for b in n.body:
                if isinstance(b, ast.Assign) and len(b.targets) == 1 and isinstance(b.targets[0], ast.Name) and b.targets[0].id == "errno":
                    out[n.name] = const_value(b.value)
    return out


def _names(node):
    if isinstance(node, ast.Tuple):
        return [e.id for e in node.elts]
    if isinstance(node, ast.Name):
        return [node.id]
    raise KeyError("unexpected except clause in _handle_responses")


def _reraises_iff_fail_on_error(h):
    """handler body ends with `if fail_on_error: raise`"""
    last = h.body[-1]
    return (isinstance(last, ast.If) and isinstance(last.test, ast.Name) and last.test.id == "fail_on_error"
            and len(last.body) == 1 and isinstance(last.body[0], ast.Raise) and last.body[0].exc is None and not last.orelse)


def _remembers_iff_fail_on_error(h):
    """handler body ends with `if fail_on_error and first_error is None: first_error = e` (55f24eb: the
    first error is raised after every response was examined)"""
    last = h.body[-1]
    if not (isinstance(last, ast.If) and isinstance(last.test, ast.BoolOp) and isinstance(last.test.op, ast.And) and not last.orelse):
        return False
    vs = last.test.values
    if not (len(vs) == 2 and isinstance(vs[0], ast.Name) and vs[0].id == "fail_on_error" and isinstance(vs[1], ast.Compare)
            and isinstance(vs[1].left, ast.Name) and vs[1].left.id == "first_error" and isinstance(vs[1].ops[0], ast.Is)
            and isinstance(vs[1].comparators[0], ast.Constant) and vs[1].comparators[0].value is None):
        return False
    b = last.body
    return (len(b) == 1 and isinstance(b[0], ast.Assign) and isinstance(b[0].targets[0], ast.Name) and b[0].targets[0].id == "first_error"
            and isinstance(b[0].value, ast.Name) and b[0].value.id == h.name)


def _examines_all_shape(hr, tr):
    """the rest of the 55f24eb shape: `first_error = None` before the loop, nothing is collected once an error is
    remembered (`if first_error is not None: continue` right after the try), `raise first_error` after the loop"""
    loops = [n for n in hr.body if isinstance(n, ast.For)]
    if len(loops) != 1:
        return False
    loop = loops[0]
    i = hr.body.index(loop)
    init = any(isinstance(n, ast.Assign) and isinstance(n.targets[0], ast.Name) and n.targets[0].id == "first_error"
               and isinstance(n.value, ast.Constant) and n.value.value is None for n in hr.body[:i])
    def is_set(t):
        return (isinstance(t, ast.Compare) and isinstance(t.left, ast.Name) and t.left.id == "first_error"
                and isinstance(t.ops[0], ast.IsNot) and isinstance(t.comparators[0], ast.Constant) and t.comparators[0].value is None)
    j = loop.body.index(tr)
    skip = (j + 1 < len(loop.body) and isinstance(loop.body[j + 1], ast.If) and is_set(loop.body[j + 1].test)
            and len(loop.body[j + 1].body) == 1 and isinstance(loop.body[j + 1].body[0], ast.Continue))
    final = any(isinstance(n, ast.If) and is_set(n.test) and len(n.body) == 1 and isinstance(n.body[0], ast.Raise)
                and isinstance(n.body[0].exc, ast.Name) and n.body[0].exc.id == "first_error" for n in hr.body[i + 1:])
    return init and skip and final


def _calls(h, method):
    for n in ast.walk(h):
        if isinstance(n, ast.Call) and isinstance(n.func, ast.Attribute) and n.func.attr == method:
            return True
    return False


def extract(src):
    errnos = _errno_table(src)
    kc = src.func("client.py", "KafkaClient")
    hr = src.func("client.py", "KafkaClient._handle_responses")
    tries = [n for n in ast.walk(hr) if isinstance(n, ast.Try)]
    if len(tries) != 1:
        raise KeyError("_handle_responses: expected one try")
    topic_errs, group_errs, catch_all = None, None, False
    forms = set()
    for h in tries[0].handlers:
        names = _names(h.type)
        if _reraises_iff_fail_on_error(h):
            forms.add("raise")
        elif _remembers_iff_fail_on_error(h):
            forms.add("remember")
        else:
            raise KeyError("_handle_responses: handler %s ends neither with `if fail_on_error: raise` nor with remembering the first error" % names)
        if names == ["BrokerResponseError"]:
            catch_all = True
        elif _calls(h, "reset_topic_metadata"):
            topic_errs = [errnos[n] for n in names]
        elif _calls(h, "reset_consumer_group_metadata"):
            group_errs = [errnos[n] for n in names]
        else:
            raise KeyError("_handle_responses: unrecognised handler %s" % names)
    if topic_errs is None or group_errs is None:
        raise KeyError("_handle_responses: topic/group reset handlers not found")
    if len(forms) != 1:
        raise KeyError("_handle_responses: handlers of mixed forms %s" % sorted(forms))
    examines_all = forms == {"remember"}
    if examines_all and not _examines_all_shape(hr, tries[0]):
        raise KeyError("_handle_responses: first_error is remembered but not (initialised, skipped past, raised at the end)")
    # reset_all_metadata: is partition_meta cleared too? (f6d26dd)
    ram = src.func("client.py", "KafkaClient.reset_all_metadata")
    cleared = sorted(n.func.value.attr for n in ast.walk(ram) if isinstance(n, ast.Call) and isinstance(n.func, ast.Attribute)
                     and n.func.attr == "clear" and isinstance(n.func.value, ast.Attribute))
    base = ["_group_to_coordinator", "topic_errors", "topic_partitions", "topics_to_brokers"]
    if cleared not in (base, sorted(base + ["partition_meta"])):
        raise KeyError("reset_all_metadata clears %s" % cleared)
    # join_group min_timeout in _group.py: `min_timeout=<expr>` keyword of _send_request_to_coordinator
    join_min = None
    for n in ast.walk(src.tree("_group.py")):
        if isinstance(n, ast.Call):
            for kw in n.keywords:
                if kw.arg == "min_timeout":
                    join_min = kw.value
    if join_min is None:
        raise KeyError("_group.py: min_timeout keyword not found")
    mrtb = src.func("client.py", "KafkaClient._make_request_to_broker")
    uses_max = any(isinstance(n, ast.Call) and isinstance(n.func, ast.Name) and n.func.id == "max" for n in ast.walk(mrtb))
    if not uses_max:
        raise KeyError("_make_request_to_broker: max(self.timeout, min_timeout) not found")
    port = None
    for n in ast.walk(src.tree("common.py")):
        if isinstance(n, ast.Assign) and len(n.targets) == 1 and isinstance(n.targets[0], ast.Name) and n.targets[0].id == "DefaultKafkaPort":
            port = const_value(n.value)
    if port is None:
        raise KeyError("DefaultKafkaPort not found")

    # kafkacodec: do the broker-aware request encoders refuse a repeated (topic, partition)?  (F18 fix)
    refuses = False
    kc_tree = src.tree("kafkacodec.py")
    for n in ast.walk(kc_tree):
        if isinstance(n, ast.FunctionDef) and n.name == "_group_payloads":
            raises = [r for r in ast.walk(n) if isinstance(r, ast.Raise) and isinstance(r.exc, ast.Call) and getattr(r.exc.func, "id", None) == "ValueError"]
            refuses = bool(raises)
    if refuses:
        users = 0
        for n in ast.walk(kc_tree):
            if isinstance(n, ast.FunctionDef) and n.name in ("encode_produce_request", "encode_fetch_request", "encode_offset_request", "encode_offset_commit_request", "encode_offset_fetch_request"):
                if any(isinstance(c, ast.Call) and getattr(c.func, "id", None) == "_group_payloads" for c in ast.walk(n)):
                    users += 1
        if users != 5:
            raise KeyError("kafkacodec: _group_payloads is not used by all five broker-aware encoders (%d)" % users)

    # _send_broker_aware_request: is a repeated key refused before the resolution loop? (c97bc61)
    sbar = src.func("client.py", "KafkaClient._send_broker_aware_request")
    first_for = min((n.lineno for n in ast.walk(sbar) if isinstance(n, ast.For)), default=10**9)
    validates_first = any(
        isinstance(n, ast.Raise) and isinstance(n.exc, ast.Call) and getattr(n.exc.func, "id", None) == "ValueError"
        and n.exc.args and isinstance(n.exc.args[0], ast.Constant) and "more than one payload" in str(n.exc.args[0].value)
        and n.lineno < first_for
        for n in ast.walk(sbar))
    # close(): idempotent (1d62725)? wakes retry delays (2a79d59)?
    close_fn = src.func("client.py", "KafkaClient.close")
    idempotent = any(
        isinstance(n, ast.If) and isinstance(n.test, ast.Compare) and isinstance(n.test.left, ast.Attribute) and n.test.left.attr == "clients"
        and any(isinstance(b, ast.Return) for b in n.body)
        for n in ast.walk(close_fn))
    wakes = any(isinstance(n, ast.Attribute) and n.attr == "_retry_delays" for n in ast.walk(close_fn))

    # _load_topic_partitions: does the decode re-bind the local `topics` (so that the loop and the retry use the
    # RESPONSE's topics), or are the requested topics kept (9b87dea)?
    ltp = src.func("client.py", "KafkaClient._load_topic_partitions")
    rebinds = None
    for n in ast.walk(ltp):
        if (isinstance(n, ast.Assign) and isinstance(n.value, ast.Call) and isinstance(n.value.func, ast.Attribute)
                and n.value.func.attr == "decode_metadata_response" and isinstance(n.targets[0], ast.Tuple)):
            rebinds = n.targets[0].elts[1].id == "topics"
    if rebinds is None:
        raise KeyError("_load_topic_partitions: decode_metadata_response assignment not found")
    if not rebinds:
        ok = any(isinstance(n, ast.If) and isinstance(n.test, ast.Compare) and isinstance(n.test.ops[0], ast.NotIn)
                 and isinstance(n.test.left, ast.Name) and n.test.left.id == "topic" for n in ast.walk(ltp))
        if not ok:
            raise KeyError("_load_topic_partitions: requested topics kept but no `topic not in <response>` test")

    def ints(l):
        return "[" + ", ".join("(%d)" % x for x in l) + "]"

    return [
        ("clientDefaultRequestTimeoutMs", assigned(kc, "DEFAULT_REQUEST_TIMEOUT_MSECS")),
        ("clientDefaultFetchWaitMs", assigned(kc, "DEFAULT_FETCH_SERVER_WAIT_MSECS")),
        ("clientDefaultFetchMinBytes", assigned(kc, "DEFAULT_FETCH_MIN_BYTES")),
        ("clientDefaultReplicasAckMs", assigned(kc, "DEFAULT_REPLICAS_ACK_MSECS")),
        ("clientTopicResetErrnos", "List Int", ints(topic_errs)),
        ("clientGroupResetErrnos", "List Int", ints(group_errs)),
        ("clientHandleCatchAll", bool(catch_all)),
        ("clientRequestTimedOutErrno", errnos["RequestTimedOutError"]),
        ("clientCoordinatorNotAvailableErrno", errnos["CoordinatorNotAvailable"]),
        ("clientDefaultKafkaPort", port),
        ("clientJoinMinTimeout", float(const_value(join_min))),
        ("clientEncoderRefusesDuplicates", bool(refuses)),
        ("clientSendValidatesKeysFirst", bool(validates_first)),
        ("clientCloseIdempotent", bool(idempotent)),
        ("clientCloseWakesRetryDelays", bool(wakes)),
        ("clientLtpKeepsRequestedTopics", not rebinds),
        ("clientHandleExaminesAll", bool(examines_all)),
        ("clientResetAllClearsPartMeta", "partition_meta" in cleared),
    ]
