"""Constants of afkak/consumer.py (and the OFFSET_* sentinels of common.py) used by Afkak/Consumer.lean."""
import ast

from harness.extract_consts import assigned, const_value, default_arg


def _module_const(tree, name):
    for n in tree.body:
        if isinstance(n, ast.Assign) and len(n.targets) == 1 and isinstance(n.targets[0], ast.Name) and n.targets[0].id == name:
            return const_value(n.value)
    raise KeyError("module constant %s not found" % name)


def _growth(func):
    """Inside `_handle_fetch_response`, the handler of ConsumerFetchSizeTooSmall:
           factor = <large>
           if self.buffer_size <= <threshold>:
               factor = <small>
    """
    for h in ast.walk(func):
        if isinstance(h, ast.ExceptHandler) and isinstance(h.type, ast.Name) and h.type.id == "ConsumerFetchSizeTooSmall":
            body = h.body
            large = small = threshold = None
            for i, st in enumerate(body):
                if isinstance(st, ast.Assign) and isinstance(st.targets[0], ast.Name) and st.targets[0].id == "factor":
                    large = const_value(st.value)
                    nxt = body[i + 1]
                    if not (isinstance(nxt, ast.If) and isinstance(nxt.test, ast.Compare) and len(nxt.test.ops) == 1 and isinstance(nxt.test.ops[0], ast.LtE)
                            and isinstance(nxt.test.left, ast.Attribute) and nxt.test.left.attr == "buffer_size"):
                        raise KeyError("_handle_fetch_response: `if self.buffer_size <= C` not found after `factor = C`")
                    threshold = const_value(nxt.test.comparators[0])
                    inner = nxt.body[0]
                    if not (isinstance(inner, ast.Assign) and inner.targets[0].id == "factor") or nxt.orelse:
                        raise KeyError("_handle_fetch_response: `factor = C` inside the threshold test not found")
                    small = const_value(inner.value)
                    # the two growth statements must still be `*= factor` and `min(self.buffer_size * factor, self.max_buffer_size)`
                    src = ast.unparse(h)
                    if "self.buffer_size *= factor" not in src or "min(self.buffer_size * factor, self.max_buffer_size)" not in src:
                        raise KeyError("_handle_fetch_response: growth statements changed shape")
                    if "self.buffer_size < self.max_buffer_size" not in src:
                        raise KeyError("_handle_fetch_response: `buffer_size < max_buffer_size` test changed shape")
                    return large, threshold, small
    raise KeyError("_handle_fetch_response: ConsumerFetchSizeTooSmall handler not found")


def _shutdown_attempts(func):
    """`if not max_attempts and self._shuttingdown: max_attempts = N` in _handle_commit_error()."""
    for n in ast.walk(func):
        if isinstance(n, ast.If) and isinstance(n.test, ast.BoolOp) and isinstance(n.test.op, ast.And) and len(n.test.values) == 2:
            a, b = n.test.values
            if isinstance(a, ast.UnaryOp) and isinstance(a.op, ast.Not) and isinstance(a.operand, ast.Name) and a.operand.id == "max_attempts" \
                    and isinstance(b, ast.Attribute) and b.attr == "_shuttingdown":
                st = n.body[0]
                if isinstance(st, ast.Assign) and isinstance(st.targets[0], ast.Name) and st.targets[0].id == "max_attempts":
                    return const_value(st.value)
    raise KeyError("_handle_commit_error: commit retry cap while shutting down not found")


def extract(src):
    cons = src.tree("consumer.py")
    common = src.tree("common.py")
    init = src.func("consumer.py", "Consumer.__init__")
    hfr = src.func("consumer.py", "Consumer._handle_fetch_response")
    large, threshold, small = _growth(hfr)
    # the retry multiplications must still use REQUEST_RETRY_FACTOR and min(.., retry_max_delay)
    rf = ast.unparse(src.func("consumer.py", "Consumer._retry_fetch"))
    if "min(self.retry_delay * REQUEST_RETRY_FACTOR, self.retry_max_delay)" not in rf:
        raise KeyError("_retry_fetch: delay update changed shape")
    ce = ast.unparse(src.func("consumer.py", "Consumer._handle_commit_error"))
    if "min(retry_delay * REQUEST_RETRY_FACTOR, self.retry_max_delay)" not in ce:
        raise KeyError("_handle_commit_error: delay update changed shape")
    return [
        ("requestRetryMinDelay", _module_const(cons, "REQUEST_RETRY_MIN_DELAY")),
        ("requestRetryMaxDelay", _module_const(cons, "REQUEST_RETRY_MAX_DELAY")),
        ("requestRetryFactor", float(_module_const(cons, "REQUEST_RETRY_FACTOR"))),
        ("fetchMinBytes", _module_const(cons, "FETCH_MIN_BYTES")),
        ("fetchMaxWaitTime", _module_const(cons, "FETCH_MAX_WAIT_TIME")),
        ("fetchBufferSizeBytes", _module_const(cons, "FETCH_BUFFER_SIZE_BYTES")),
        ("autoCommitMsgCount", _module_const(cons, "AUTO_COMMIT_MSG_COUNT")),
        ("autoCommitInterval", _module_const(cons, "AUTO_COMMIT_INTERVAL")),
        ("defaultMaxAttempts", default_arg(init, "request_retry_max_attempts")),
        ("initialAttemptCount", assigned(init, "_fetch_attempt_count")),
        ("growFactorLarge", large),
        ("growThreshold", threshold),
        ("growFactorSmall", small),
        ("shutdownRetryAttempts", _shutdown_attempts(src.func("consumer.py", "Consumer._handle_commit_error"))),
        ("offsetEarliest", "Int", "(%d)" % _module_const(common, "OFFSET_EARLIEST")),
        ("offsetLatest", "Int", "(%d)" % _module_const(common, "OFFSET_LATEST")),
        ("offsetNotCommitted", "Int", "(%d)" % _module_const(common, "OFFSET_NOT_COMMITTED")),
        ("offsetCommitted", "Int", "(%d)" % _module_const(common, "OFFSET_COMMITTED")),
    ]
