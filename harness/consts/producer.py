"""Constants of afkak/producer.py (and the two errnos / the ack constant it tests against) used by
Afkak/Producer.lean."""
import ast

from harness.extract_consts import assigned, const_value


def _class(src, fn, name):
    for n in ast.walk(src.tree(fn)):
        if isinstance(n, ast.ClassDef) and n.name == name:
            return n
    raise KeyError("%s: class %s not found" % (fn, name))


def _module_const(src, fn, name):
    for n in src.tree(fn).body:
        if isinstance(n, ast.Assign) and len(n.targets) == 1 and isinstance(n.targets[0], ast.Name) and n.targets[0].id == name:
            return const_value(n.value)
    raise KeyError("%s: %s not found" % (fn, name))


def _reset_classes(src):
    """Names of the exception classes whose isinstance() test triggers reset_topic_metadata in
    `_check_retry_payloads`."""
    f = src.func("producer.py", "Producer._handle_send_response")
    names = []
    for n in ast.walk(f):
        if isinstance(n, ast.Call) and isinstance(n.func, ast.Name) and n.func.id == "isinstance" and len(n.args) == 2:
            a = n.args[1]
            if isinstance(a, ast.Name) and a.id.endswith("Error") and a.id not in ("FailedPayloadsError",):
                names.append(a.id)
    names = sorted(set(names))
    if names != ["NotLeaderForPartitionError", "UnknownTopicOrPartitionError"]:
        raise KeyError("reset_topics isinstance tests changed: %s" % names)
    return names


def extract(src):
    prod = _class(src, "producer.py", "Producer")
    _reset_classes(src)
    return [
        ("producerRetryFactor", assigned(prod, "RETRY_INTERVAL_FACTOR")),
        ("producerInitRetryInterval", assigned(prod, "INIT_RETRY_INTERVAL")),
        ("producerDefaultReqAttempts", assigned(prod, "DEFAULT_REQ_ATTEMPTS")),
        ("producerDefaultAckTimeout", assigned(prod, "DEFAULT_ACK_TIMEOUT")),
        ("producerBatchSendSecs", _module_const(src, "producer.py", "BATCH_SEND_SECS_COUNT")),
        ("producerBatchSendMsgCount", _module_const(src, "producer.py", "BATCH_SEND_MSG_COUNT")),
        ("producerBatchSendMsgBytes", _module_const(src, "producer.py", "BATCH_SEND_MSG_BYTES")),
        ("producerAckNotRequired", "Int", "(%d)" % _module_const(src, "common.py", "PRODUCER_ACK_NOT_REQUIRED")),
        ("producerErrnoUnknownTopic", "Int", "(%d)" % assigned(_class(src, "common.py", "UnknownTopicOrPartitionError"), "errno")),
        ("producerErrnoNotLeader", "Int", "(%d)" % assigned(_class(src, "common.py", "NotLeaderForPartitionError"), "errno")),
    ]
