"""Constants of afkak/producer.py (and the two errnos / the ack constant it tests against) used by
Afkak/Producer.lean."""
import ast

from harness.extract_consts import assigned, const_value


def _class(src, fn, name):
    for n in ast.walk(src.tree(fn)):
        if isinstance(n, ast.ClassDef) and n.name == name:
            return n
    raise KeyError("%s: class %s not found" % (fn, name))


def _module_const(src, fn, name):
    for n in src.tree(fn).body:
        if isinstance(n, ast.Assign) and len(n.targets) == 1 and isinstance(n.targets[0], ast.Name) and n.targets[0].id == name:
            return const_value(n.value)
    raise KeyError("%s: %s not found" % (fn, name))


def _reset_classes(src):
    """Names of the exception classes whose isinstance() test triggers reset_topic_metadata in
    `_check_retry_payloads`."""
    f = src.func("producer.py", "Producer._handle_send_response")
    names = []
    for n in ast.walk(f):
        if isinstance(n, ast.Call) and isinstance(n.func, ast.Name) and n.func.id == "isinstance" and len(n.args) == 2:
            a = n.args[1]
            if isinstance(a, ast.Name) and a.id.endswith("Error") and a.id not in ("FailedPayloadsError",):
                names.append(a.id)
    names = sorted(set(names))
    if names != ["NotLeaderForPartitionError", "UnknownTopicOrPartitionError"]:
        raise KeyError("reset_topics isinstance tests changed: %s" % names)
    return names


def _interval_shape(src, prod):
    """The retry interval is touched in exactly four places: set from the argument in __init__, multiplied by the
    factor after each of the two timers (metadata back-off, retry), reset in _complete_batch_send; and the class has
    no tuning constant the model does not know."""
    consts = sorted(t.id for n in prod.body if isinstance(n, ast.Assign) for t in n.targets
                    if isinstance(t, ast.Name) and t.id.isupper())
    if consts != ["DEFAULT_ACK_TIMEOUT", "DEFAULT_REQ_ATTEMPTS", "INIT_RETRY_INTERVAL", "RETRY_INTERVAL_FACTOR"]:
        raise KeyError("Producer: class constants changed: %s" % consts)
    writes = []
    for n in ast.walk(prod):
        targets = []
        if isinstance(n, ast.Assign):
            targets = n.targets
        elif isinstance(n, ast.AugAssign):
            targets = [n.target]
        for t in targets:
            if isinstance(t, ast.Attribute) and t.attr == "_retry_interval":
                if isinstance(n, ast.AugAssign):
                    ok = isinstance(n.op, ast.Mult) and isinstance(n.value, ast.Attribute) and n.value.attr == "RETRY_INTERVAL_FACTOR"
                    writes.append("*=factor" if ok else "aug?")
                else:
                    v = n.value
                    writes.append("=init" if (isinstance(v, ast.Attribute) and v.attr == "_init_retry_interval")
                                  or (isinstance(v, ast.Name) and v.id == "retry_interval") else "=?")
    if sorted(writes) != ["*=factor", "*=factor", "=init", "=init"]:
        raise KeyError("Producer: _retry_interval is no longer (only) set from the argument, multiplied by RETRY_INTERVAL_FACTOR "
                       "after the two timers and reset when the batch completes: %s" % sorted(writes))


def _topic_len_bounds(src):
    """`_coerce_topic`: `len(topic) < 1` / `len(topic) > 249` raise ValueError"""
    f = src.func("_util.py", "_coerce_topic")
    lo = hi = None
    for n in ast.walk(f):
        if (isinstance(n, ast.Compare) and isinstance(n.left, ast.Call) and isinstance(n.left.func, ast.Name) and n.left.func.id == "len"
                and len(n.ops) == 1 and isinstance(n.comparators[0], ast.Constant)):
            if isinstance(n.ops[0], ast.Lt):
                lo = n.comparators[0].value
            elif isinstance(n.ops[0], ast.Gt):
                hi = n.comparators[0].value
    if lo is None or hi is None:
        raise KeyError("_coerce_topic: `len(topic) < lo` / `len(topic) > hi` not found")
    return lo, hi


def extract(src):
    prod = _class(src, "producer.py", "Producer")
    _reset_classes(src)
    _interval_shape(src, prod)
    lo, hi = _topic_len_bounds(src)
    return [
        ("producerRetryFactor", assigned(prod, "RETRY_INTERVAL_FACTOR")),
        ("producerInitRetryInterval", assigned(prod, "INIT_RETRY_INTERVAL")),
        ("producerDefaultReqAttempts", assigned(prod, "DEFAULT_REQ_ATTEMPTS")),
        ("producerDefaultAckTimeout", assigned(prod, "DEFAULT_ACK_TIMEOUT")),
        ("producerBatchSendSecs", _module_const(src, "producer.py", "BATCH_SEND_SECS_COUNT")),
        ("producerBatchSendMsgCount", _module_const(src, "producer.py", "BATCH_SEND_MSG_COUNT")),
        ("producerBatchSendMsgBytes", _module_const(src, "producer.py", "BATCH_SEND_MSG_BYTES")),
        ("producerAckNotRequired", "Int", "(%d)" % _module_const(src, "common.py", "PRODUCER_ACK_NOT_REQUIRED")),
        ("producerErrnoUnknownTopic", "Int", "(%d)" % assigned(_class(src, "common.py", "UnknownTopicOrPartitionError"), "errno")),
        ("producerErrnoNotLeader", "Int", "(%d)" % assigned(_class(src, "common.py", "NotLeaderForPartitionError"), "errno")),
        ("producerTopicMinLen", lo),
        ("producerTopicMaxLen", hi),
    ]
