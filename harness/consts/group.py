"""Source-derived part of the group model (Afkak/Group.lean): constants of afkak/_group.py and the error
classification tables of `Coordinator.rejoin_after_error`, `get_coordinator_broker._get_coordinator_failed`
and `join_and_sync.rejoin_d_errback`, obtained by symbolically running those functions' if-chains (AST only,
nothing imported) for one representative exception class per error kind, using the class hierarchy of
afkak/common.py.  A statement the interpreter does not know raises KeyError (source changed shape).
"""
import ast

from harness.extract_consts import assigned, default_arg

# (Lean constructor, python class as named in afkak/common.py | special)
KINDS = [
    ("rebalanceInProgress", "RebalanceInProgress"),
    ("notCoordinator", "NotCoordinator"),
    ("coordinatorNotAvailable", "CoordinatorNotAvailable"),
    ("coordinatorLoadInProgress", "CoordinatorLoadInProgress"),
    ("illegalGeneration", "IllegalGeneration"),
    ("unknownMemberId", "UnknownMemberId"),
    ("inconsistentGroupProtocol", "InconsistentGroupProtocol"),
    ("invalidGroupId", "InvalidGroupId"),
    ("requestTimedOut", "RequestTimedOutError"),
    ("invalidSessionTimeout", "InvalidSessionTimeout"),
    ("groupAuthorizationFailed", "GroupAuthorizationFailed"),
    ("unknownError", "UnknownError"),
    ("kafkaUnavailable", "KafkaUnavailableError"),
    ("cancelled", "twisted:CancelledError"),  # twisted.internet.defer.CancelledError
    ("nonKafka", "builtin:AttributeError"),
]


class Hierarchy:
    """Class names of afkak/common.py -> set of ancestor names (aliases resolved)."""

    def __init__(self, tree):
        self.bases, self.alias = {}, {}
        for n in tree.body:
            if isinstance(n, ast.ClassDef):
                self.bases[n.name] = [b.id for b in n.bases if isinstance(b, ast.Name)]
            elif isinstance(n, ast.Assign) and len(n.targets) == 1 and isinstance(n.targets[0], ast.Name) and isinstance(n.value, ast.Name):
                self.alias[n.targets[0].id] = n.value.id

    def resolve(self, name):
        seen = set()
        while name in self.alias and name not in seen:
            seen.add(name)
            name = self.alias[name]
        return name

    def ancestors(self, name):
        if name.startswith(("twisted:", "builtin:")):
            return {name, "builtin:Exception"}
        name = self.resolve(name)
        if name not in self.bases:
            raise KeyError("class %s not found in common.py" % name)
        out, todo = set(), [name]
        while todo:
            c = todo.pop()
            if c in out:
                continue
            out.add(c)
            for b in self.bases.get(c, []):
                todo.append(self.resolve(b))
        return out


class Interp:
    """Runs the body of one of the three functions for one (kind, stopping)."""

    def __init__(self, hier, imports, cls, stopping):
        self.h, self.imports, self.cls, self.stopping = hier, imports, cls, stopping
        self.effects = []  # 'leave' | 'reset' | 'clearMember' | 'stop' | 'needed' | ('timer', delayname, tracked)
        self.delay = None
        self.ret = None  # None | 'none' | 'result'
        self.wait_dc_guard = False

    def classname(self, node):
        if not isinstance(node, ast.Name):
            raise KeyError("check() argument is not a name")
        src = self.imports.get(node.id)
        if src is None:
            raise KeyError("name %s is not imported in _group.py" % node.id)
        return src

    def isinstance_(self, target):
        if target.startswith("twisted:") or target.startswith("builtin:"):
            return target in self.h.ancestors(self.cls) if not self.cls.startswith(("twisted:", "builtin:")) else target == self.cls
        if self.cls.startswith(("twisted:", "builtin:")):
            return False
        return self.h.resolve(target) in self.h.ancestors(self.cls)

    def test(self, node):
        if isinstance(node, ast.Call) and isinstance(node.func, ast.Attribute) and node.func.attr == "check":
            return any(self.isinstance_(self.classname(a)) for a in node.args)
        if isinstance(node, ast.Attribute) and node.attr == "_stopping":
            return self.stopping
        if isinstance(node, ast.BoolOp) and isinstance(node.op, ast.And):
            return all(self.test(v) for v in node.values)
        if isinstance(node, ast.BoolOp) and isinstance(node.op, ast.Or):
            return any(self.test(v) for v in node.values)
        if isinstance(node, ast.UnaryOp) and isinstance(node.op, ast.Not):
            if isinstance(node.operand, ast.Attribute) and node.operand.attr == "_rejoin_wait_dc":
                self.wait_dc_guard = True
                return True
            return not self.test(node.operand)
        raise KeyError("unknown test: %s" % ast.dump(node)[:80])

    def backoff(self, node):
        if isinstance(node, ast.Attribute) and node.attr.endswith("_backoff_ms"):
            return node.attr[: -len("_backoff_ms")]
        raise KeyError("delay is not a *_backoff_ms attribute")

    def run(self, stmts):
        for s in stmts:
            if self.ret is not None:
                return
            if isinstance(s, ast.Expr) and isinstance(s.value, ast.Constant):
                continue  # docstring
            if isinstance(s, ast.Expr) and isinstance(s.value, ast.Call):
                f = s.value.func
                path = ast.unparse(f)
                if path.startswith("log."):
                    continue
                if path == "self.on_group_leave":
                    self.effects.append("leave")
                elif path == "self.client.reset_consumer_group_metadata":
                    self.effects.append("reset")
                elif path == "self.stop":
                    self.effects.append("stop")
                elif path == "self.client.reactor.callLater":
                    self.timer(s.value, tracked=False)
                else:
                    raise KeyError("unknown call %s" % path)
            elif isinstance(s, ast.Assign) and len(s.targets) == 1:
                t = ast.unparse(s.targets[0])
                if t in ("rejoin_delay", "retry_delay"):
                    self.delay = self.backoff(s.value)
                elif t == "self.member_id" and isinstance(s.value, ast.Constant) and s.value.value == "":
                    self.effects.append("clearMember")
                elif t == "self._state":
                    continue
                elif t == "self._rejoin_needed" and isinstance(s.value, ast.Constant) and s.value.value is True:
                    self.effects.append("needed")
                elif t == "rejoin_delay_s":
                    continue
                elif t == "self._rejoin_wait_dc":
                    self.timer(s.value, tracked=True)
                else:
                    raise KeyError("unknown assignment to %s" % t)
            elif isinstance(s, ast.If):
                self.run(s.body if self.test(s.test) else s.orelse)
            elif isinstance(s, ast.Return):
                self.ret = "none" if s.value is None else ("result" if ast.unparse(s.value) == "result" else "other")
                if self.ret == "other":
                    raise KeyError("unknown return value")
            else:
                raise KeyError("unknown statement %s" % type(s).__name__)

    def timer(self, call, tracked):
        if not (isinstance(call, ast.Call) and ast.unparse(call.func) == "self.client.reactor.callLater"):
            raise KeyError("expected reactor.callLater")
        if ast.unparse(call.args[1]) != "self.join_and_sync":
            raise KeyError("callLater target is not join_and_sync")
        self.effects.append(("timer", self.delay, tracked))


def imports_of(tree):
    out = {}
    for n in tree.body:
        if isinstance(n, ast.ImportFrom):
            for a in n.names:
                nm = a.asname or a.name
                if n.module == "afkak.common":
                    out[nm] = a.name
                elif n.module and n.module.startswith("twisted"):
                    out[nm] = "twisted:" + a.name
    return out


def lean_bool(b):
    return "true" if b else "false"


def extract(src):
    init = src.func("_group.py", "Coordinator.__init__")
    join = src.func("_group.py", "Coordinator.send_join_group_request")
    min_timeout = None
    for n in ast.walk(join):
        if isinstance(n, ast.keyword) and n.arg == "min_timeout":
            min_timeout = n.value.value
    if min_timeout is None:
        raise KeyError("send_join_group_request: min_timeout keyword not found")
    # consumers are started from OFFSET_COMMITTED with the member's id and generation
    ojc = src.func("_group.py", "ConsumerGroup.on_join_complete")
    start_args = [ast.unparse(n.args[0]) for n in ast.walk(ojc) if isinstance(n, ast.Call) and isinstance(n.func, ast.Attribute) and n.func.attr == "start" and n.args]
    if start_args != ["OFFSET_COMMITTED"]:
        raise KeyError("on_join_complete: consumer.start(OFFSET_COMMITTED) not found")
    kw = {}
    for n in ast.walk(ojc):
        if isinstance(n, ast.Call) and ast.unparse(n.func) == "Consumer":
            kw = {k.arg: ast.unparse(k.value) for k in n.keywords if k.arg}
    if kw.get("commit_consumer_id") != "self.member_id" or kw.get("commit_generation_id") != "self.generation_id":
        raise KeyError("on_join_complete: Consumer(commit_consumer_id=self.member_id, commit_generation_id=self.generation_id) not found")
    offset_committed = assigned(src.tree("common.py"), "OFFSET_COMMITTED")
    # ... and the Consumer keeps that identity: `commit_consumer_id` / `commit_generation_id` are assigned only
    # in `Consumer.__init__` (from the constructor arguments) and `_send_commit_request` sends exactly them
    # (the source facts behind the composition theorem C16_commit_fencing)
    ctree = src.tree("consumer.py")
    ccls = [n for n in ctree.body if isinstance(n, ast.ClassDef) and n.name == "Consumer"]
    if len(ccls) != 1:
        raise KeyError("consumer.py: class Consumer not found")
    for attr in ("commit_consumer_id", "commit_generation_id"):
        sites = []
        for fn in ast.walk(ccls[0]):
            if not isinstance(fn, (ast.FunctionDef, ast.AsyncFunctionDef)):
                continue
            for n in ast.walk(fn):
                targets = n.targets if isinstance(n, ast.Assign) else [n.target] if isinstance(n, (ast.AugAssign, ast.AnnAssign)) else []
                for t in targets:
                    for u in ast.walk(t):
                        if isinstance(u, ast.Attribute) and u.attr == attr:
                            sites.append((fn.name, ast.unparse(n)))
                if isinstance(n, ast.Call) and ast.unparse(n.func) in ("setattr", "object.__setattr__") and attr in ast.unparse(n):
                    sites.append((fn.name, ast.unparse(n)))
        if sites != [("__init__", "self.%s = %s" % (attr, attr))]:
            raise KeyError("consumer.py: %s is assigned at %r, expected only `self.%s = %s` in __init__" % (attr, sites, attr, attr))
    scr = src.func("consumer.py", "Consumer._send_commit_request")
    sent = None
    for n in ast.walk(scr):
        if isinstance(n, ast.Call) and ast.unparse(n.func) == "self.client.send_offset_commit_request":
            sent = {k.arg: ast.unparse(k.value) for k in n.keywords if k.arg}
    if sent is None or sent.get("group_generation_id") != "self.commit_generation_id" or sent.get("consumer_id") != "self.commit_consumer_id":
        raise KeyError("_send_commit_request: send_offset_commit_request(group_generation_id=self.commit_generation_id, "
                       "consumer_id=self.commit_consumer_id) not found: %r" % (sent,))

    hier = Hierarchy(src.tree("common.py"))
    gtree = src.tree("_group.py")
    imports = imports_of(gtree)
    raf = src.func("_group.py", "Coordinator.rejoin_after_error")
    gcf = src.func("_group.py", "Coordinator.get_coordinator_broker._get_coordinator_failed")
    rde = src.func("_group.py", "Coordinator.join_and_sync.rejoin_d_errback")

    lines = [
        ("inductive GErr where\n" + "\n".join("  | %s" % k for k, _ in KINDS) + "\n  deriving DecidableEq, Repr",),
        ("def GErr.all : List GErr := [%s]" % ", ".join(".%s" % k for k, _ in KINDS),),
        ("def GErr.name : GErr → String\n" + "\n".join('  | .%s => "%s"' % (k, k) for k, _ in KINDS),),
        ("inductive RejoinAct where | rejoin | effectsOnly | ignore | fatal\n  deriving DecidableEq, Repr",),
        ("structure RejoinRow where\n  act : RejoinAct\n  leave : Bool\n  resetMeta : Bool\n  clearMember : Bool\n  fatalDelay : Bool\n  deriving DecidableEq, Repr",),
        ("inductive CoordFailAct where | retryInitial | retryFatal | propagate\n  deriving DecidableEq, Repr",),
    ]
    rows = {True: [], False: []}
    for stopping in (False, True):
        for k, cls in KINDS:
            it = Interp(hier, imports, cls, stopping)
            it.run(raf.body)
            eff = it.effects
            names = [e for e in eff if isinstance(e, str)]
            order = [e for e in names if e in ("leave", "reset", "clearMember")]
            if order != [e for e in ("leave", "reset", "clearMember") if e in order]:
                raise KeyError("rejoin_after_error: effects in unexpected order %s" % order)
            timers = [e for e in eff if isinstance(e, tuple)]
            if "stop" in names:
                if names[: names.index("stop")] != ["leave"] or timers:
                    raise KeyError("rejoin_after_error: fatal branch is not on_group_leave(); stop()")
                act = "fatal"
            elif timers:
                if "needed" not in names or not it.wait_dc_guard or not timers[0][2] or len(timers) != 1:
                    raise KeyError("rejoin_after_error: scheduling tail changed shape")
                act = "rejoin"
            elif "needed" in names:
                raise KeyError("rejoin_after_error: _rejoin_needed set without a timer")
            elif order:
                act = "effectsOnly"
            else:
                act = "ignore" if it.ret == "none" else "effectsOnly"
            delay = timers[0][1] if timers else it.delay
            if delay not in ("retry", "fatal"):
                raise KeyError("rejoin_after_error: delay %s" % delay)
            rows[stopping].append("  | .%s => ⟨.%s, %s, %s, %s, %s⟩" % (k, act, lean_bool("leave" in names and act != "fatal"), lean_bool("reset" in names), lean_bool("clearMember" in names), lean_bool(delay == "fatal")))
    lines.append(("def rejoinRowRunning : GErr → RejoinRow\n" + "\n".join(rows[False]),))
    lines.append(("def rejoinRowStopping : GErr → RejoinRow\n" + "\n".join(rows[True]),))
    lines.append(("def rejoinRow (stopping : Bool) (e : GErr) : RejoinRow := if stopping then rejoinRowStopping e else rejoinRowRunning e",))

    crow = []
    for k, cls in KINDS:
        it = Interp(hier, imports, cls, False)
        it.run(gcf.body)
        timers = [e for e in it.effects if isinstance(e, tuple)]
        if it.ret == "result" and not timers:
            act = "propagate"
        elif len(timers) == 1 and not timers[0][2] and timers[0][1] in ("initial", "fatal") and it.ret == "none":
            act = "retryInitial" if timers[0][1] == "initial" else "retryFatal"
        else:
            raise KeyError("_get_coordinator_failed changed shape for %s" % k)
        crow.append("  | .%s => .%s" % (k, act))
    lines.append(("def coordFailRow : GErr → CoordFailAct\n" + "\n".join(crow),))
    # _get_coordinator_success: `if not leader:` retry after initial_backoff_ms
    gcs = src.func("_group.py", "Coordinator.get_coordinator_broker._get_coordinator_success")
    it = Interp(hier, imports, "builtin:AttributeError", False)
    first = gcs.body[0]
    if not (isinstance(first, ast.If) and ast.unparse(first.test) == "not leader"):
        raise KeyError("_get_coordinator_success: `if not leader` not found")
    it.delay = None
    for s in first.body:
        if isinstance(s, ast.Expr) and isinstance(s.value, ast.Call) and ast.unparse(s.value.func) == "self.client.reactor.callLater":
            d = s.value.args[0]
            if not (isinstance(d, ast.BinOp) and isinstance(d.op, ast.Div) and ast.unparse(d.left) == "self.initial_backoff_ms" and d.right.value == 1000.0):
                raise KeyError("_get_coordinator_success: retry delay is not initial_backoff_ms / 1000.0")
            it.delay = "initial"
    if it.delay != "initial":
        raise KeyError("_get_coordinator_success: retry timer not found")

    erow = []
    for k, cls in KINDS:
        it = Interp(hier, imports, cls, False)
        # rejoin_d_errback: log; if result.check(KafkaError): self.rejoin_after_error(...)
        hit = False
        for s in rde.body:
            if isinstance(s, ast.If):
                if it.test(s.test):
                    calls = [ast.unparse(c.func) for c in ast.walk(s) if isinstance(c, ast.Call)]
                    hit = "self.rejoin_after_error" in calls
            elif isinstance(s, ast.Expr) and isinstance(s.value, ast.Call) and ast.unparse(s.value.func).startswith("log."):
                continue
            elif isinstance(s, ast.Return) or (isinstance(s, ast.Expr) and isinstance(s.value, ast.Call) and ast.unparse(s.value.func) == "self.rejoin_after_error"):
                hit = True
            else:
                raise KeyError("rejoin_d_errback changed shape")
        erow.append("  | .%s => %s" % (k, lean_bool(hit)))
    lines.append(("def escapeRejoins : GErr → Bool\n" + "\n".join(erow),))

    # delays are `<x>_backoff_ms / 1000.0` seconds and the heartbeat interval `heartbeat_interval_ms / 1000.0`
    for fn, pat in ((raf, "rejoin_delay / 1000.0"), (gcf, "retry_delay / 1000.0"), (src.func("_group.py", "Coordinator.reset_heartbeat_timer"), "self.heartbeat_interval_ms / 1000.0")):
        if pat not in ast.unparse(fn):
            raise KeyError("%s: `%s` not found" % (fn.name, pat))
    return [
        ("groupSessionTimeoutMs", default_arg(init, "session_timeout_ms")),
        ("groupHeartbeatIntervalMs", default_arg(init, "heartbeat_interval_ms")),
        ("groupInitialBackoffMs", default_arg(init, "initial_backoff_ms")),
        ("groupRetryBackoffMs", default_arg(init, "retry_backoff_ms")),
        ("groupFatalBackoffMs", default_arg(init, "fatal_backoff_ms")),
        ("groupJoinMinTimeout", float(min_timeout)),
        ("groupConsumerStartOffset", "Int", "(%d)" % offset_committed),
        ("groupMsPerSecond", 1000),
        ("groupCommitIdentityFixed", "Bool", "true"),
    ] + lines
