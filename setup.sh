#!/bin/sh
# Build the whole framework offline from files on disk: models, proofs, property theorems, driver.
cd "$(dirname "$0")" || exit 2
export PYTHONPATH="$(pwd):/repo"
/venv/bin/python -c 'from harness import core; print(core.regen_consts())' || exit 2
cd lean && flock .build.lock lake build Afkak AfkakProofs AfkakProps Driver model_partitioner model_assign model_wire model_brokerclient model_client model_producer model_consumer model_group
