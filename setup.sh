#!/bin/sh
# Build the whole framework offline from files on disk: models, proofs, property theorems, drivers.
cd "$(dirname "$0")" || exit 2
export PYTHONPATH="$(pwd):/repo"
/venv/bin/python -c 'from harness import core; print(core.regen_consts())' || exit 2
cd lean || exit 2
EXES=$(grep -o 'name = "model_[a-z]*"' lakefile.toml | cut -d'"' -f2 | tr '\n' ' ')
# Only the property files that have a claim (a check) must build; everything they import follows.
PROPS=$(ls ../harness/claims | sed 's/\.json$//; s/^/AfkakProps./' | tr '\n' ' ')
flock .build.lock lake build $PROPS $EXES
